"""C20 - physical forcings: correspondence of Model/Forcings.v with
dinosaur.radiation / dinosaur.held_suarez, and the property's own clauses
evaluated on the implementation.

Transcendentals: cos/sin are passed to the extracted model as finite tables
(exact rational argument -> numpy value); the arguments are obtained from the
model itself (staged calls), so the model decides *where* cos/sin are taken.
exp / log / p**kappa of the Held-Suarez part are handled the same way."""
import datetime, math, os, time
import numpy as np
from fractions import Fraction
from harness import util

THEOREMS = ['C20_gen_constants_complete', 'C20_source_formulas_match_model', 'C20_flux_zero_at_night_any_field',
            'C20_source_constants_ordered', 'C20_sin_altitude_le_1', 'C20_flux_nonneg', 'C20_flux_le_perihelion',
            'C20_flux_bounds_source_constants', 'C20_flux_zero_at_night', 'C20_flux_pos_by_day', 'C20_flux_periodic',
            'C20_flux_wrap_invariant', 'C20_flux_time_periodic', 'C20_normalized_in_unit_interval',
            'C20_normalized_is_scaled', 'C20_hs_kv_nonneg', 'C20_hs_kv_zero_above_boundary_layer', 'C20_hs_kt_ge_ka',
            'C20_hs_kt_le_ks', 'C20_hs_teq_ge_minT', 'C20_hs_drag_through_wind', 'C20_hs_drag_linear',
            'C20_hs_drag_zero_above_boundary_layer', 'C20_hs_temperature_tendency_is_relaxation',
            'C20_hs_nodal_dissipative', 'C20_hs_lnps_tendency_zero', 'C20_hs_rates_R', 'C20_night_and_day_exist',
            'C20_hs_hyps_satisfiable']
LEVEL = 'proof'
LEVEL_TEXT = ('machine-checked theorems (Coq): over the reals with cos/sin/PI, for all phases, longitudes, latitudes and '
              'all 0<=V<=S (shown for the constants regenerated from the source): |sin altitude|<=1, 0<=flux<=S+V, flux '
              'exactly 0 at night and >0 by day, invariance under whole turns of either phase, under the phase wrap and '
              'under time shifts by common periods, normalised flux in [0,1]; for every ordered field, grid, state and '
              'parameter set: kv>=0, kv=0 above the boundary layer, ka<=kt<=ks, Teq>=minT, vorticity/divergence tendencies '
              '= -kv times the wind round trip (= -kv*(vor,div) under H_uv_roundtrip), zero drag above the boundary '
              'layer, temperature tendency = to_modal(-kt (T-Teq)), lnps tendency 0; the source formulas are '
              're-transcribed on every run and proved equal to the model; the model is executed (extraction) against '
              'the implementation. NOT proved: global mean = S/4 up to quadrature error (explored numerically)')
LEVEL_NOTE = ('theorems are about the Gallina model Model/Forcings.v; cos/sin/exp/log/pow enter the executable model as '
              'tables evaluated by numpy at the model\'s exact arguments; horizontal operators enter as matrices '
              'obtained from the implementation (C02/C04 are responsible for them); H_uv_roundtrip is a table obligation')

PI = Fraction(math.pi)
TWO_PI = 2 * PI
GRIDS = {'g8x4': dict(longitude_wavenumbers=3, total_wavenumbers=4, longitude_nodes=8, latitude_nodes=4),
         'g12x6': dict(longitude_wavenumbers=4, total_wavenumbers=5, longitude_nodes=12, latitude_nodes=6),
         'g16x8': dict(longitude_wavenumbers=6, total_wavenumbers=7, longitude_nodes=16, latitude_nodes=8),
         # grids whose first longitude is not 0: the flux must be evaluated at the grid's ACTUAL nodes
         'g12x6o': dict(longitude_wavenumbers=4, total_wavenumbers=5, longitude_nodes=12, latitude_nodes=6, longitude_offset=0.7),
         'g8x4w': dict(longitude_wavenumbers=3, total_wavenumbers=4, longitude_nodes=8, latitude_nodes=4, longitude_offset=-3.0),
         # layout / option variants (self-review items 1, 5, 6)
         'g8x4r': dict(longitude_wavenumbers=3, total_wavenumbers=4, longitude_nodes=8, latitude_nodes=4, radius=2.5),
         'g8x6t': dict(longitude_wavenumbers=3, total_wavenumbers=5, longitude_nodes=8, latitude_nodes=6),   # total > longitude + 1
         'gwide': dict(longitude_wavenumbers=3, total_wavenumbers=4, longitude_nodes=240, latitude_nodes=4, longitude_offset=0.01),
         'gtall': dict(longitude_wavenumbers=3, total_wavenumbers=4, longitude_nodes=6, latitude_nodes=160),
         'gequi': dict(longitude_wavenumbers=3, total_wavenumbers=4, longitude_nodes=8, latitude_nodes=5, latitude_spacing='equiangular'),
         'gpoles': dict(longitude_wavenumbers=3, total_wavenumbers=4, longitude_nodes=8, latitude_nodes=5, latitude_spacing='equiangular_with_poles'),
         'gfast': dict(longitude_wavenumbers=3, total_wavenumbers=4, longitude_nodes=8, latitude_nodes=4, impl='fast', longitude_offset=1.25),
         # SIZE thresholds in the number of latitude nodes: few longitudes, very many Gaussian latitudes (nodes within 0.5 degrees of the poles)
         'gt300': dict(longitude_wavenumbers=3, total_wavenumbers=4, longitude_nodes=8, latitude_nodes=300),
         'gt520': dict(longitude_wavenumbers=2, total_wavenumbers=3, longitude_nodes=6, latitude_nodes=520),
         'gt1030': dict(longitude_wavenumbers=3, total_wavenumbers=4, longitude_nodes=8, latitude_nodes=1030, longitude_offset=0.3),
         'ge200': dict(longitude_wavenumbers=3, total_wavenumbers=4, longitude_nodes=8, latitude_nodes=200, latitude_spacing='equiangular')}
# process time zones with daylight saving (IANA name and POSIX rule strings, which need no tz database)
TZS = ['America/New_York', 'CET-1CEST,M3.5.0,M10.5.0/3', 'EST5EDT,M3.2.0,M11.1.0', 'Australia/Lord_Howe', 'NST3:30NDT,M3.2.0,M11.1.0']
REFS = {'wb': (1979, 1, 1, 0, 0), 'leap_end': (2000, 12, 31, 23, 59), 'feb29': (1980, 2, 29, 12, 30), 'mid': (2015, 7, 4, 6, 7)}

_jax = None
def J():
    global _jax
    if _jax is None:
        util.setup_jax()
        import jax.numpy as jnp
        from dinosaur import (radiation, held_suarez, spherical_harmonic, coordinate_systems, sigma_coordinates,
                              primitive_equations, scales)
        _jax = dict(jnp=jnp, rad=radiation, hs=held_suarez, sh=spherical_harmonic, cs=coordinate_systems,
                    sc=sigma_coordinates, pe=primitive_equations, units=scales.units,
                    specs=primitive_equations.PrimitiveEquationsSpecs.from_si(), scales=scales)
    return _jax


def specs_of(name='si'):
    """'si': default specs; 'alt': non-default kappa and a scale whose temperature / mass / time / length units are not 1."""
    if ('specs', name) not in _cache:
        j = J(); u = j['units']
        if name == 'si':
            _cache['specs', name] = j['specs']
        else:
            sc = j['scales'].Scale(1e6 * u.m, 3600 * u.s, 10 * u.kilogram, 2 * u.degK)
            _cache['specs', name] = j['pe'].PrimitiveEquationsSpecs.from_si(kappa_si=0.3 * u.dimensionless, scale=sc)
    return _cache['specs', name]


_cache = {}
def grid_of(name):
    if ('grid', name) not in _cache:
        j = J()
        if name.startswith('T'):
            _cache['grid', name] = getattr(j['sh'].Grid, name)()
        else:
            kw = dict(GRIDS[name])
            if kw.pop('impl', None) == 'fast': kw['spherical_harmonics_impl'] = j['sh'].FastSphericalHarmonics
            _cache['grid', name] = j['sh'].Grid(**kw)
    return _cache['grid', name]


def grid_nodes(name):
    """Node coordinates from the grid DEFINITION (not from any object under test): longitudes
    offset + 2 pi i / n; Gauss / equiangular latitudes from numpy."""
    if name.startswith('T'):
        g = grid_of(name); return np.asarray(g.longitudes, dtype=np.float64), np.asarray(g.latitudes, dtype=np.float64)
    d = GRIDS[name]; nx, ny = d['longitude_nodes'], d['latitude_nodes']
    lons = d.get('longitude_offset', 0.0) + 2 * np.pi * np.arange(nx) / nx
    sp = d.get('latitude_spacing', 'gauss')
    if sp == 'gauss':
        if ny <= 64:
            lats = np.arcsin(np.polynomial.legendre.leggauss(ny)[0])
        else:                      # companion-matrix eigenvalues are slow for hundreds of nodes
            import scipy.special
            lats = np.arcsin(scipy.special.roots_legendre(ny)[0])
    elif sp == 'equiangular': lats = -np.pi / 2 + np.pi * (np.arange(ny) + 0.5) / ny
    else: lats = np.linspace(-np.pi / 2, np.pi / 2, ny)
    return lons, lats


def solar_of(gname, ref, normalized=False, spec='si', dt64=False):
    k = ('solar', gname, ref, normalized, spec, dt64)
    if k not in _cache:
        j = J()
        coords = j['cs'].CoordinateSystem(grid_of(gname), j['sc'].SigmaCoordinates.equidistant(2))
        cls = j['rad'].SolarRadiation
        dt = datetime.datetime(*REFS[ref])
        if dt64: dt = np.datetime64(dt)
        _cache[k] = (cls.normalized if normalized else cls)(coords, specs_of(spec), dt)
    return _cache[k]


class Trig:
    """cos/sin tables keyed by exact argument."""
    def __init__(self): self.c = {}; self.s = {}
    def cos(self, *qs):
        for q in qs: self.c.setdefault(Fraction(q), float(np.cos(float(q))))
    def sin(self, *qs):
        for q in qs: self.s.setdefault(Fraction(q), float(np.sin(float(q))))
    def arrs(self, *rest):
        return [list(self.c.keys()), list(self.c.values()), list(self.s.keys()), list(self.s.values())] + [list(r) for r in rest]


def model_flux_tables(ctx, T, op, syn, lons, lats, S, V, check=None):
    """Stages 1-2: fill the tables for (op, syn, lons, lats); returns (dec, eot, hour angles) of the model."""
    sc = [PI, S, V, op, syn]
    a0, b, b2 = ctx.model.call(1, [], T.arrs(sc))
    T.cos(a0, b); T.sin(b, b2)
    m2 = ctx.model.call(2, [], T.arrs(sc, lons))
    dec, eot, hs = m2[0], m2[1], m2[2:]
    T.cos(dec, *hs, *lats); T.sin(dec, *lats)
    return dec, eot, hs


# ---------------------------------------------------------------------------
def generate(ctx):
    rng = ctx.rng
    quick = ctx.tier == 'quick'
    yield 'constants', {}
    # function level: arbitrary phases (incl. negative, large, exact multiples, equinox / perihelion), points incl. poles
    n = 12 if quick else 70
    for i in range(n):
        kind = i % 7
        if kind == 0: op, syn = float(rng.uniform(0, 2 * np.pi)), float(rng.uniform(0, 2 * np.pi))
        elif kind == 1: op, syn = float(rng.uniform(-40, 40)), float(rng.uniform(-400, 400))
        elif kind == 2: op, syn = float(2 * np.pi * rng.integers(-3, 4)), float(np.pi * rng.integers(-4, 5))
        elif kind == 3: op, syn = float(rng.uniform(0, 7)), 0.0
        elif kind == 4: op, syn = float(rng.uniform(-7, 0)), float(rng.uniform(0, 7))
        elif kind == 5: op, syn = 79 * 2 * np.pi / 365.25, float(rng.uniform(-7, 7))      # equinox: declination 0, poles on the terminator
        else: op, syn = 3 * 2 * np.pi / 365.25 + 2 * np.pi * int(rng.integers(-2, 3)), float(rng.uniform(0, 7))   # perihelion
        nl = 5 if quick else 8
        lons = rng.uniform(-np.pi, 3 * np.pi, nl).tolist() + [0.0]
        lats = np.concatenate([rng.uniform(-np.pi / 2, np.pi / 2, nl - 2), [-np.pi / 2, np.pi / 2, 0.0]]).tolist()
        if i % 3 == 0: S, V = 1361.0, 47.0
        elif i % 3 == 1: S, V = float(rng.integers(1, 2000)), float(rng.integers(0, 100)) / 4
        else: S = float(rng.uniform(0.5, 3)); V = float(rng.uniform(0, S))
        if i % 6 == 5: V = S          # boundary of the admissible range
        if i % 6 == 4: V = 0.0
        ctx.count(f'flux:phase-kind={kind}')
        yield 'flux', {'op': op, 'syn': syn, 'lons': lons, 'lats': lats, 'S': S, 'V': V,
                       'n': int(rng.integers(-5, 6)), 'm': int(rng.integers(-400, 401)),
                       'peri': float(rng.uniform(-7, 7)), 'forms': i % 4 == 0}
    # class level: grids (offsets, radius, wide/tall, equiangular with and without poles, fast transform layout),
    # reference datetimes (none at Jan 1 midnight except 'wb'), datetime64 references, non-default scales
    if quick:
        gl = ['g8x4', 'g12x6', 'g12x6o', 'g8x4w', 'gpoles', 'gfast']
        extra = [('gwide', 1), ('gtall', 1), ('gequi', 1), ('g8x4r', 1), ('gt300', 1)]
    else:
        gl = ['g8x4', 'g12x6', 'g16x8', 'T21', 'g12x6o', 'g8x4w', 'gpoles', 'gfast', 'gequi', 'g8x4r', 'g8x6t']
        extra = [('gwide', 4), ('gtall', 4), ('gt300', 2), ('gt520', 2), ('gt1030', 2), ('ge200', 2)]
    refs = list(REFS)
    cnt = 0
    for gi, g in enumerate(gl + [e[0] for e in extra]):
        nref = dict(extra).get(g, 2 if quick else 4) if g not in gl else (2 if quick else 4)
        for r in range(nref):
            ref = refs[(gi + r) % len(refs)]
            yield 'reftime', {'ref': ref}
            days = [0.0, float(rng.uniform(-3, 3)), float(365.25 * rng.integers(-3, 4)), float(rng.uniform(-20000, 20000)),
                    float(rng.integers(-3000, 3000)), -float(rng.uniform(0, 1)) / 1440]
            sel = days[:4] if quick else days
            if g in dict(extra) or g == 'T21': sel = [days[1 + (r % 3)]]
            elif quick and r == 1: sel = [days[1], days[3]]
            for d in sel:
                cnt += 1
                ctx.count('solar:grid=' + g)
                yield 'solar', {'grid': g, 'ref': ref, 'days': d, 'normalized': bool(rng.integers(0, 2)),
                                'spec': 'alt' if cnt % 4 == 0 else 'si', 'dt64': cnt % 3 == 0,
                                'forms': cnt % (3 if quick else 2) == 1,
                                'other_days': rng.uniform(-500, 500, 3).tolist()}
    # global mean (not proved): quadrature grids
    for g in (['g12x6', 'T21', 'g8x4r', 'gt300'] if quick else ['g8x4', 'g12x6', 'g16x8', 'T21', 'T42', 'T85', 'g8x4r', 'gequi', 'gfast', 'gt300', 'gt1030', 'ge200', 'gwide']):
        for _ in range(3 if quick else 12):
            yield 'globalmean', {'grid': g, 'ref': refs[int(rng.integers(0, len(refs)))], 'days': float(rng.uniform(-20000, 20000))}
    # process time zone: np.datetime64 instants must mean the same instant in every zone (DST zones, switches inside the windows)
    tzl = TZS[:2] if quick else TZS
    for ti, tz in enumerate(tzl):
        for r in range(1 if quick else 3):
            year = int(rng.integers(1981, 2031))
            inst = []
            for mon, d0 in ((3, 5), (10, 20), (11, 1), (4, 1)):
                for _ in range(2 if quick else 4):
                    inst.append([year, mon, d0 + int(rng.integers(0, 12)) if mon != 4 else int(rng.integers(1, 9)), int(rng.integers(0, 24)), int(rng.integers(0, 60))])
            inst.append([year, 7, 1, 12, 0]); inst.append([year, 1, 1, 0, 0])
            ctx.count('tz:' + tz)
            yield 'tz', {'tz': tz, 'grid': ['g8x4', 'g12x6o'][(ti + r) % 2], 'ref': [year - int(rng.integers(0, 3)), int(rng.integers(1, 13)), int(rng.integers(1, 29)), int(rng.integers(0, 24)), int(rng.integers(0, 60))],
                         'instants': inst, 'spec': 'alt' if (ti + r) % 3 == 2 else 'si'}
    # Held-Suarez
    yield 'hs_defaults', {}
    # size threshold in the latitude count: drag on tall grids (nodes within 0.5 degrees of the poles)
    tall = [('gt300', 0, True)] if quick else [('gt300', 0, True), ('gt300', 1, True), ('gt520', 4, True), ('gt1030', 0, True), ('gt1030', 5, False), ('ge200', 1, True), ('T170', 0, False)]
    for g, pv, domodel in tall:
        sb = HS_VARIANTS[pv].get('sigma_b', 0.7)
        b = [0.0, round(sb - 0.15, 3), round(sb + 0.1, 3), 1.0]
        if g.startswith('T'):
            M, L = 341, 172
        else:
            M, L = 2 * GRIDS[g]['longitude_wavenumbers'] - 1, GRIDS[g]['total_wavenumbers']
        Mr, Lr = min(M, 9), min(L, 12)      # random low-degree block (the rest of a large state stays zero)
        st = {f: rng.integers(-16, 17, (3, Mr, Lr)).tolist() for f in ('vor', 'div', 'tv')}
        ctx.count('hs_tall:grid=' + g)
        yield 'hs_tall', {'grid': g, 'b': b, 'tref': rng.integers(200, 300, 3).astype(float).tolist(), 'pv': pv, 'spec': 'si',
                          'state': st, 'model': domodel}
    # coefficients and equilibrium temperature: cheap, many level sets / parameter variants
    nv = len(HS_VARIANTS)
    special = [[0.0, 1.0], [0.0, 0.4, 1.0], [0.0, 0.2, 0.4, 1.0]]      # K = 1; centres exactly AT sigma_b = 0.7 (and 0.5 for variant 1)
    for i in range(nv + len(special) if quick else 4 * nv):
        g = ['g8x4', 'g12x6', 'g16x8', 'gfast', 'g8x6t'][i % (2 if quick else 5)]
        K = int(rng.integers(2, 9))
        b = util.uneven_boundaries(rng, K).tolist() if i % 2 else np.linspace(0, 1, K + 1).tolist()
        pv = i % nv
        if (quick and i >= nv) or (not quick and i % 5 == 4):
            b = special[i % len(special)]; K = len(b) - 1; pv = [0, 0, 1][i % len(special)]
        base = {'grid': g, 'b': b, 'tref': rng.integers(200, 300, K).astype(float).tolist(), 'pv': pv,
                'spec': 'alt' if i % 3 == 2 else 'si'}
        ctx.count('hs:grid=' + g); ctx.count(f'hs:K={K}'); ctx.count(f'hs:params={pv}'); ctx.count('hs:specs=' + base['spec'])
        yield 'hs_coeffs', base
        nx, ny = GRIDS[g]['longitude_nodes'], GRIDS[g]['latitude_nodes']
        # surface pressure from 0.4 p0 to 1.6 p0: includes columns with sigma * ps > p0 (log > 0, power > 1)
        yield 'hs_teq', dict(base, ps_rel=(rng.integers(40, 161, (nx, ny)) / 100.0).tolist(), lead1=bool(i % 2))
    # explicit_terms: exact rational evaluation of the operator chain is expensive (division by
    # cos^2 gives large denominators), so tiny grids and few levels; 'rest' / 'top' states are sparse and cheap
    if quick:
        plan = [('g8x4', 2, 0, 'low', 'si'), ('g8x4', 2, 1, 'full', 'si'), ('g8x4', 2, 4, 'top', 'alt'), ('g8x4', 3, 2, 'rest', 'si')]
    else:
        plan = [('g8x4', 3, pv, kind, 'alt' if pv % 2 else 'si') for pv in range(nv) for kind in (('low', 'full') if pv < 4 else ('top', 'low'))]
        plan += [('g12x6', 2, 0, 'low', 'si'), ('g12x6', 2, 1, 'full', 'si'), ('g8x4r', 2, 4, 'low', 'si'), ('g8x4r', 2, 1, 'top', 'alt'),
                 ('g8x6t', 2, 0, 'low', 'si'), ('g8x6t', 2, 5, 'top', 'si'), ('g12x6', 3, 3, 'rest', 'si'), ('g8x4', 1, 0, 'full', 'si')]
    for g, K, pv, kind, spec in plan:
        sb = HS_VARIANTS[pv].get('sigma_b', 0.7)
        # levels on both sides of the boundary layer top
        if K == 1:
            b = np.array([0.0, 1.0])
        else:
            inner = np.sort(rng.choice(np.arange(1, 20), size=K - 1, replace=False)) / 20.0
            b = np.concatenate([[0.0], inner, [1.0]])
            if not ((b[:-1] + b[1:]) / 2 <= sb).any() or not ((b[:-1] + b[1:]) / 2 > sb).any():
                b = np.concatenate([[0.0], np.linspace(sb - 0.1, 0.95, K - 1), [1.0]])
        base = {'grid': g, 'b': b.tolist(), 'tref': rng.integers(200, 300, K).astype(float).tolist(), 'pv': pv, 'spec': spec}
        grid = GRIDS[g]; nx, ny = grid['longitude_nodes'], grid['latitude_nodes']
        M, L = 2 * grid['longitude_wavenumbers'] - 1, grid['total_wavenumbers']
        if kind == 'rest':
            st = {f: np.zeros((K, M, L), dtype=int).tolist() for f in ('vor', 'div', 'tv')}
        elif kind == 'top':
            # one non-zero coefficient per field and level, at the highest retained total wavenumber
            st = {}
            for fi, f in enumerate(('vor', 'div', 'tv')):
                x = np.zeros((K, M, L), dtype=int)
                for k in range(K):
                    x[k, (fi + k) % min(M, 3), L - 1] = int(rng.integers(1, 17)) * (-1) ** k
                st[f] = x.tolist()
        else:
            st = {f: rng.integers(-16, 17, (K, M, L)).tolist() for f in ('vor', 'div', 'tv')}
        ctx.count('hs_terms:grid=' + g); ctx.count('hs_terms:state=' + kind); ctx.count('hs_terms:specs=' + spec)
        # log surface pressure perturbation up to +0.5: columns with sigma * ps > p0 in the lowest layer
        yield 'hs_terms', dict(base, low=(kind == 'low'), kind=kind, state=st,
                               lnps_nodal=(rng.integers(-20, 51, (nx, ny)) / 100.0).tolist())


# ---------------------------------------------------------------------------
def r_constants(ctx, a):
    j = J(); rad = j['rad']
    m = ctx.model.call(0, [], [[], [], [], [], [PI]])
    impl = [float(rad.PERIHELION), float(rad.SPRING_EQUINOX), float(rad.EARTH_AXIS_INCLINATION),
            float(rad.TOTAL_SOLAR_IRRADIANCE.magnitude), float(rad.SOLAR_IRRADIANCE_VARIATION.magnitude),
            float(rad.DAYS_PER_YEAR), float(rad.MINUTES_PER_DAY), float(rad.SECONDS_PER_DAY)]
    ctx.corr('radiation constants', impl, m, scale=1.0)
    S, V = impl[3], impl[4]
    ctx.oracle('source constants satisfy 0 <= variation <= mean irradiance', 0 <= V <= S, {'S': S, 'V': V})
    ctx.oracle('obliquity below 90 degrees', 0 <= impl[2] < np.pi / 2, impl[2])


def _indep_sin_altitude(op, syn, lon, lat):
    """Independent float64 transcription of the documented astronomy (not via dinosaur)."""
    b = op - 79 * 2 * np.pi / 365.25
    dec = np.deg2rad(23.45) * np.sin(b)
    eot = 2 * np.pi * (9.87 * np.sin(2 * b) - 7.53 * np.cos(b) - 1.5 * np.sin(b)) / 1440
    h = syn + eot + lon - np.pi
    return np.cos(lat) * np.cos(dec) * np.cos(h) + np.sin(lat) * np.sin(dec)


def r_flux(ctx, a):
    j = J(); rad = j['rad']; jnp = j['jnp']
    op, syn, S, V = a['op'], a['syn'], a['S'], a['V']
    lons, lats = np.asarray(a['lons']), np.asarray(a['lats'])
    lon2, lat2 = lons[:, None], lats[None, :]
    T = Trig()
    dec, eot, hs = model_flux_tables(ctx, T, op, syn, lons.tolist(), lats.tolist(), S, V)
    sc = [PI, S, V, op, syn]
    big = max(1.0, abs(op), abs(syn))
    ctx.corr('get_declination', [float(rad.get_declination(op))], [dec], scale=1.0)
    ctx.corr('equation_of_time', [float(rad.equation_of_time(op))], [eot], scale=1.0)
    ctx.corr('get_hour_angle', np.asarray(rad.get_hour_angle(op, syn, jnp.asarray(lons))), hs, scale=big + 10)
    ctx.corr('get_direct_solar_irradiance', [float(rad.get_direct_solar_irradiance(op, S, V))],
             ctx.model.call(3, [], T.arrs(sc)), scale=(S + V) * big)
    s_impl = np.asarray(rad.get_solar_sin_altitude(op, syn, jnp.asarray(lon2), jnp.asarray(lat2)))
    ctx.corr('get_solar_sin_altitude', s_impl, ctx.model.call(4, [], T.arrs(sc, lons, lats)), scale=big)
    ot = rad.OrbitalTime(orbital_phase=op, synodic_phase=syn)
    f = np.asarray(rad.get_radiation_flux(ot, jnp.asarray(lon2), jnp.asarray(lat2), S, V))
    ctx.corr('get_radiation_flux', f, ctx.model.call(5, [], T.arrs(sc, lons, lats)), scale=(S + V) * big)
    fn = np.asarray(rad.get_normalized_radiation_flux(ot, jnp.asarray(lon2), jnp.asarray(lat2), S, V))
    ctx.corr('get_normalized_radiation_flux', fn, ctx.model.call(6, [], T.arrs(sc, lons, lats)), scale=big)
    # ---- the property's clauses on the implementation
    eps = 2.0 ** -40
    ctx.oracle('flux never negative', bool(np.all(f >= 0)), {'min': float(f.min())})
    ctx.oracle('flux never exceeds perihelion constant S+V', bool(np.all(f <= (S + V) * (1 + eps))), {'max': float(f.max()), 'S+V': S + V})
    ctx.oracle('flux exactly zero where the sun is below the horizon (own sin altitude)',
               bool(np.all(f[s_impl <= 0] == 0)), {'n_night': int((s_impl <= 0).sum())})
    s_ref = _indep_sin_altitude(op, syn, lon2, lat2)
    tol = 1e-9 * big
    ctx.oracle('flux exactly zero where the sun is below the horizon (independent solar position)',
               bool(np.all(f[s_ref < -tol] == 0)), {'n_night': int((s_ref < -tol).sum()), 'max': float(np.max(f[s_ref < -tol], initial=0.0))})
    if S > V:
        ctx.oracle('flux positive where the sun is above the horizon (independent solar position)',
                   bool(np.all(f[s_ref > tol] > 0)), {'n_day': int((s_ref > tol).sum())})
    ctx.count('flux:night-points', int((s_ref < -tol).sum())); ctx.count('flux:day-points', int((s_ref > tol).sum()))
    ot2 = rad.OrbitalTime(orbital_phase=op + 2 * np.pi * a['n'], synodic_phase=syn)
    ot3 = rad.OrbitalTime(orbital_phase=op, synodic_phase=syn + 2 * np.pi * a['m'])
    big2 = max(big, abs(ot2.orbital_phase), abs(ot3.synodic_phase))
    ctx.oracle_close('flux periodic in orbital phase', np.asarray(rad.get_radiation_flux(ot2, jnp.asarray(lon2), jnp.asarray(lat2), S, V)), f, scale=(S + V) * big2)
    ctx.oracle_close('flux periodic in daily phase', np.asarray(rad.get_radiation_flux(ot3, jnp.asarray(lon2), jnp.asarray(lat2), S, V)), f, scale=(S + V) * big2)
    ctx.oracle('normalised flux within [0, 1]', bool(np.all((fn >= 0) & (fn <= 1 + eps))), {'min': float(fn.min()), 'max': float(fn.max())})
    # independent closed forms (numpy) of the instantaneous solar constant, also with a non-default perihelion
    pe_ = a.get('peri', 0.5)
    ctx.oracle_close('irradiance = S + V cos(phase - perihelion), non-default perihelion',
                     [float(rad.get_direct_solar_irradiance(op, S, V, pe_)), float(rad.get_direct_solar_irradiance(op, S, V))],
                     [S + V * np.cos(op - pe_), S + V * np.cos(op - 3 * 2 * np.pi / 365.25)], scale=(S + V) * big)
    ctx.oracle_close('flux = irradiance * max(0, sin altitude) (independent solar position)',
                     f, (S + V * np.cos(op - 3 * 2 * np.pi / 365.25)) * np.maximum(0, s_ref), scale=(S + V) * big, tol_abs=(S + V) * 1e-9 * big)
    # purity: the same call again is bit-identical
    f_again = np.asarray(rad.get_radiation_flux(ot, jnp.asarray(lon2), jnp.asarray(lat2), S, V))
    ctx.oracle('repeated evaluation is bit-identical', bool(np.array_equal(f, f_again)), None)
    if a.get('forms'):
        # argument forms: python scalars, 0-d arrays, integer-typed arrays, read-only strided views, default (pint) constants
        f00 = float(rad.get_radiation_flux(ot, float(lons[0]), float(lats[0]), S, V))
        ctx.oracle_close('python-scalar longitude/latitude', [f00], [f[0, 0]], scale=(S + V) * big)
        f0d = float(rad.get_radiation_flux(rad.OrbitalTime(orbital_phase=np.float64(op), synodic_phase=np.asarray(syn)),
                                           np.asarray(lons[0]), np.asarray(lats[0]), S, V))
        ctx.oracle_close('0-d array arguments', [f0d], [f[0, 0]], scale=(S + V) * big)
        ilon = np.arange(-3, 4); ilat = np.array([-1, 0, 1])
        fi = np.asarray(rad.get_radiation_flux(ot, jnp.asarray(ilon)[:, None], jnp.asarray(ilat)[None, :], int(S) if S == int(S) else S, V))
        ff = np.asarray(rad.get_radiation_flux(ot, jnp.asarray(ilon.astype(float))[:, None], jnp.asarray(ilat.astype(float))[None, :], S, V))
        ctx.oracle_close('integer-typed longitudes/latitudes', fi, ff, scale=(S + V) * big)
        ctx.oracle_close('integer-typed points against the independent solar position', ff,
                         (S + V * np.cos(op - 3 * 2 * np.pi / 365.25)) * np.maximum(0, _indep_sin_altitude(op, syn, ilon[:, None].astype(float), ilat[None, :].astype(float))),
                         scale=(S + V) * big, tol_abs=(S + V) * 1e-9 * big)
        wide = np.zeros((lons.size, 2 * lats.size)); wide[:, ::2] = lat2; wide.setflags(write=False)
        fv = np.asarray(rad.get_radiation_flux(ot, lon2, wide[:, ::2], S, V))
        ctx.oracle('read-only strided numpy views give the same flux', bool(np.array_equal(fv, f)), float(np.abs(fv - f).max()))
        fd = rad.get_radiation_flux(ot, jnp.asarray(lon2), jnp.asarray(lat2))      # default pint constants
        fdm = np.asarray(getattr(fd, 'magnitude', fd))
        T2 = Trig()
        model_flux_tables(ctx, T2, op, syn, lons.tolist(), lats.tolist(), 1361.0, 47.0)
        m0 = ctx.model.call(0, [], [[], [], [], [], [PI]])
        ctx.corr('get_radiation_flux with default constants', fdm,
                 ctx.model.call(5, [], T2.arrs([PI, m0[3], m0[4], op, syn], lons, lats)), scale=1408.0 * big)
        ctx.oracle('default-constant flux bounded by 1361 + 47', bool(np.all((fdm >= 0) & (fdm <= 1408.0 * (1 + eps)))), float(fdm.max()))


def _cal(ref):
    dt = datetime.datetime(*REFS[ref])
    diy = datetime.datetime(dt.year, 12, 31).timetuple().tm_yday
    return dt, [diy, dt.timetuple().tm_yday - 1, dt.hour, dt.minute]


def r_reftime(ctx, a):
    j = J(); rad = j['rad']
    dt, ints = _cal(a['ref'])
    ot = rad.datetime_to_orbital_time(dt)
    m = ctx.model.call(7, ints, [[], [], [], [], [PI]])
    ctx.corr('datetime_to_orbital_time', [float(ot.orbital_phase), float(ot.synodic_phase)], m, scale=2 * np.pi)
    ot64 = rad.datetime_to_orbital_time(rad.datetime64_to_datetime(np.datetime64(dt)))
    ctx.exact('datetime64 path gives the same orbital time', [float(ot64.orbital_phase), float(ot64.synodic_phase)],
              [float(ot.orbital_phase), float(ot.synodic_phase)])


def _circ(x, ref):
    """x shifted by the multiple of 2 pi that brings it closest to ref."""
    x = np.asarray(x, dtype=np.float64); ref = np.asarray(ref, dtype=np.float64)
    return x - np.round((x - ref) / (2 * np.pi)) * 2 * np.pi


def _solar_case(ctx, sr, t):
    """Model values for SolarRadiation at nondimensional time t; returns (wrapped phases, flux list, scale)."""
    ro, rs = float(sr.reference_orbital_time.orbital_phase), float(sr.reference_orbital_time.synodic_phase)
    ao, as_ = float(sr.orbital_rate.orbital_phase), float(sr.orbital_rate.synodic_phase)
    xo = Fraction(ro) + Fraction(ao) * Fraction(t); xs = Fraction(rs) + Fraction(as_) * Fraction(t)
    no, ns = math.floor(xo / TWO_PI), math.floor(xs / TWO_PI)
    m8 = ctx.model.call(8, [no, ns], [[], [], [], [], [PI, ro, rs, ao, as_, t]])
    return (ro, rs, ao, as_), (no, ns), m8


def _indep_phases(ref, days):
    """Orbital / daily phase from the calendar alone (Julian year of 365.25 days), not via SolarRadiation."""
    dt, (diy, full, hh, mm) = _cal(ref)
    fod = (60 * hh + mm) / 1440.0
    return 2 * np.pi * (full + fod) / diy + 2 * np.pi * days / 365.25, 2 * np.pi * fod + 2 * np.pi * days


def r_solar(ctx, a):
    j = J(); rad = j['rad']; jnp = j['jnp']; units = j['units']
    specs = specs_of(a.get('spec', 'si'))
    sr = solar_of(a['grid'], a['ref'], a['normalized'], a.get('spec', 'si'), a.get('dt64', False))
    t = float(specs.nondimensionalize(a['days'] * units.day))
    (ro, rs, ao, as_), (no, ns), m8 = _solar_case(ctx, sr, t)
    now = sr.time_to_orbital_time(t)
    io, is_ = float(now.orbital_phase), float(now.synodic_phase)
    raw_scale = max(1.0, abs(float(m8[0])), abs(float(m8[1])))
    ctx.exact('floor accepted by the model', [1, 1], [int(m8[4]), int(m8[5])])
    ctx.corr('time_to_orbital_time (mod 2 pi)', _circ([io, is_], [float(m8[2]), float(m8[3])]), m8[2:4], scale=raw_scale)
    ctx.oracle('reduced phases lie in [0, 2 pi]', bool(-1e-9 <= io <= 2 * np.pi + 1e-9 and -1e-9 <= is_ <= 2 * np.pi + 1e-9), [io, is_])
    # reference phases and rates against the calendar / the Julian year, independently of the object
    dt, ints = _cal(a['ref'])
    mref = ctx.model.call(7, ints, [[], [], [], [], [PI]])
    ctx.corr('SolarRadiation.reference_orbital_time (datetime and datetime64 references)', [ro, rs], mref, scale=2 * np.pi)
    iop, isyn = _indep_phases(a['ref'], a['days'])
    ctx.oracle_close('phases follow the calendar: reference + 2 pi days / 365.25, reference + 2 pi days (mod 2 pi)',
                     _circ([io, is_], [iop, isyn]), [iop, isyn], scale=raw_scale, tol_abs=1e-9 * raw_scale)
    S, V = float(sr.total_solar_irradiance), float(sr.solar_irradiance_variation)
    w = float(specs.nondimensionalize(1 * units.W / units.meter ** 2))
    if a['normalized']:
        ctx.oracle_close('normalised constants are 1361/1408 and 47/1408', [S, V], [1361.0 / 1408.0, 47.0 / 1408.0], scale=1.0)
    else:
        ctx.oracle_close('constants are the nondimensionalised 1361 and 47 W/m^2', [S, V], [1361.0 * w, 47.0 * w], scale=1408.0 * w)
    # node coordinates are taken from the GRID DEFINITION (not from the SolarRadiation object under test)
    lons, lats = grid_nodes(a['grid'])
    ctx.oracle('SolarRadiation evaluates the flux at the grid nodes (longitude offset included)',
               bool(np.asarray(sr.lon).shape == (lons.size, lats.size) and
                    np.allclose(np.asarray(sr.lon)[:, 0], lons, rtol=0, atol=1e-12) and np.allclose(np.asarray(sr.lat)[0, :], lats, rtol=0, atol=1e-12)),
               {'sr_lon0': float(np.asarray(sr.lon)[0, 0]), 'grid_lon0': float(lons[0])})
    if lons.size * lats.size > 200:      # large grid: subsample the model comparison
        li = np.unique(np.concatenate([np.arange(0, lons.size, max(1, lons.size // 9)), [lons.size - 1]]))
        lj = np.unique(np.concatenate([np.arange(0, lats.size, max(1, lats.size // 6)), [lats.size - 1]]))
    else:
        li = np.arange(lons.size); lj = np.arange(lats.size)
    T = Trig()
    _, _, mh = model_flux_tables(ctx, T, m8[2], m8[3], lons[li].tolist(), lats[lj].tolist(), S, V)
    ha = np.asarray(sr.solar_hour_angle(t))[li, 0]
    ctx.corr('SolarRadiation.solar_hour_angle (mod 2 pi)', _circ(ha, [float(v) for v in mh]), mh, scale=raw_scale + 10)
    mf = ctx.model.call(9, [no, ns], T.arrs([PI, S, V, ro, rs, ao, as_, t], lons[li], lats[lj]))
    f = np.asarray(sr.radiation_flux(t))
    ctx.corr('SolarRadiation.radiation_flux', f[np.ix_(li, lj)], mf, scale=(S + V) * raw_scale)
    # ---- clauses
    eps = 2.0 ** -40
    ctx.oracle('flux never negative', bool(np.all(f >= 0)), {'min': float(f.min())})
    ctx.oracle('flux never exceeds perihelion constant S+V', bool(np.all(f <= (S + V) * (1 + eps))), {'max': float(f.max()), 'S+V': S + V})
    if a['normalized']:
        ctx.oracle('normalised flux within [0, 1]', bool(np.all((f >= 0) & (f <= 1 + eps))), {'max': float(f.max())})
        ctx.oracle_close('normalised constants sum to one', [S + V], [1.0], scale=1.0)
    # independent solar position: calendar phases, grid-definition coordinates
    s_ref = _indep_sin_altitude(iop, isyn, lons[:, None], lats[None, :])
    mg = 1e-6 + 1e-12 * raw_scale
    ctx.oracle('flux exactly zero where the sun is below the horizon (independent solar position)',
               bool(np.all(f[s_ref < -mg] == 0)), {'n_night': int((s_ref < -mg).sum())})
    ctx.oracle('flux positive where the sun is above the horizon (independent solar position)',
               bool(np.all(f[s_ref > mg] > 0)), {'n_day': int((s_ref > mg).sum())})
    S_ind, V_ind = ((1361.0 / 1408.0, 47.0 / 1408.0) if a['normalized'] else (1361.0 * w, 47.0 * w))
    ctx.oracle_close('flux = irradiance * max(0, sin altitude) (independent solar position and constants)',
                     f, (S_ind + V_ind * np.cos(iop - 3 * 2 * np.pi / 365.25)) * np.maximum(0, s_ref),
                     scale=(S_ind + V_ind) * raw_scale, tol_abs=(S_ind + V_ind) * 1e-9 * raw_scale)
    # periodic in model time: 4 Julian years = 1461 days advance both phases by whole turns
    P = float(specs.nondimensionalize(1461 * units.day))
    turns = [ao * P / (2 * np.pi), as_ * P / (2 * np.pi)]
    ctx.oracle_close('1461 days are whole turns of both phases', turns, [4.0, 1461.0], scale=1461.0)
    f2 = np.asarray(sr.radiation_flux(t + P))
    ctx.oracle_close('flux periodic in model time (1461 days)', f2, f, scale=(S + V) * (raw_scale + 1461 * 2 * np.pi))
    D = float(specs.nondimensionalize(1 * units.day))
    ctx.oracle_close('one day is one whole turn of the daily phase', [as_ * D / (2 * np.pi)], [1.0], scale=1.0)
    # purity: evaluation interleaved with another time is bit-identical; the object is not mutated
    f3 = np.asarray(sr.radiation_flux(t))
    ctx.oracle('repeated evaluation (interleaved with another time) is bit-identical', bool(np.array_equal(f, f3)), float(np.abs(f - f3).max()))
    ctx.oracle('evaluation does not change the object', [float(sr.total_solar_irradiance), float(sr.solar_irradiance_variation),
               float(sr.reference_orbital_time.orbital_phase), float(sr.reference_orbital_time.synodic_phase)] == [S, V, ro, rs], None)
    if a.get('forms'):
        import jax
        # time as numpy scalar / 0-d jax array / python int; jit and vmap over DIFFERENT times
        ctx.oracle_close('time given as numpy float64 scalar', np.asarray(sr.radiation_flux(np.float64(t))), f, scale=(S + V) * raw_scale)
        ctx.oracle_close('time given as 0-d jax array', np.asarray(sr.radiation_flux(jnp.asarray(t))), f, scale=(S + V) * raw_scale)
        ctx.oracle_close('integer time 0 equals float time 0.0', np.asarray(sr.radiation_flux(0)), np.asarray(sr.radiation_flux(0.0)), scale=S + V)
        ts = np.array([t] + [float(specs.nondimensionalize(d * units.day)) for d in a.get('other_days', [1.5, -2.25])])
        fb = np.asarray(jax.jit(jax.vmap(sr.radiation_flux))(jnp.asarray(ts)))
        each = np.stack([np.asarray(sr.radiation_flux(float(x))) for x in ts])
        ctx.oracle_close('jit(vmap) over different times equals one-by-one evaluation', fb, each,
                         scale=(S + V) * max(raw_scale, float(np.abs(ts).max() * as_)))
        # datetime_to_time: days since the reference, nondimensionalised
        when = dt + datetime.timedelta(days=37, seconds=3600 * 5 + 60 * 17)
        want = (37 + (3600 * 5 + 60 * 17) / 86400.0) * D
        ctx.oracle_close('datetime_to_time is the elapsed time since the reference', [float(sr.datetime_to_time(when)), float(sr.datetime_to_time(np.datetime64(when)))],
                         [want, want], scale=abs(want))


def r_globalmean(ctx, a):
    j = J(); rad = j['rad']; specs = j['specs']; units = j['units']
    sr = solar_of(a['grid'], a['ref'])
    g = grid_of(a['grid'])
    t = float(specs.nondimensionalize(a['days'] * units.day))
    f = sr.radiation_flux(t)
    # instantaneous solar constant from the calendar phase and 1361 / 47 W/m^2 (independent of the object)
    iop, _ = _indep_phases(a['ref'], a['days'])
    w = float(specs.nondimensionalize(1 * units.W / units.meter ** 2))
    irr = (1361.0 + 47.0 * np.cos(iop - 3 * 2 * np.pi / 365.25)) * w
    radius = GRIDS.get(a['grid'], {}).get('radius', 1.0) if not a['grid'].startswith('T') else 1.0
    mean = float(g.integrate(f)) / (4 * np.pi * radius ** 2)
    ny = min(g.nodal_shape[1], g.nodal_shape[0] / 2.0)     # coarser direction (equal to the latitude count when nx = 2 ny)
    tol = 3.0 / ny ** 2
    ctx.count('globalmean:grid=' + a['grid'])
    ctx.oracle('global mean equals a quarter of the instantaneous solar constant up to quadrature error',
               abs(mean / (irr / 4) - 1) <= tol, {'mean': mean, 'S/4': irr / 4, 'rel_err': mean / (irr / 4) - 1, 'tol': tol})


# ---------------------------------------------------------------------------
# Held-Suarez
HS_VARIANTS = {
    0: {},
    1: dict(sigma_b=0.5, kf=('1/day', 2.0), ka=('1/day', 1 / 30), ks=('1/day', 0.5), minT=('degK', 210), maxT=('degK', 300), dTy=('degK', 50), dThz=('degK', 12)),
    2: dict(sigma_b=0.8, ka=('1/day', 0.1), ks=('1/day', 0.1), p0=('pascal', 0.9e5)),
    3: dict(sigma_b=0.65, kf=('1/day', 0.0), ka=('1/day', 0.02), ks=('1/day', 0.3), minT=('degK', 150)),
    4: dict(sigma_b=0.75, p0=('pascal', 1.1e5), minT=('degK', 180), maxT=('degK', 330), dThz=('degK', 5)),
    5: dict(kf=('1/day', 1e3), ka=('1/day', 1e-3), ks=('1/day', 1.0), dTy=('degK', 0), maxT=('degK', 260)),   # rates over six decades
    6: dict(sigma_b=0.3, kf=('1/day', 1e-3), ka=('1/day', 0.5), ks=('1/day', 0.01)),                           # ks < ka (correspondence only)
}
HS_DEFAULTS = dict(p0=('pascal', 1e5), sigma_b=0.7, kf=('1/day', 1.0), ka=('1/day', 1 / 40), ks=('1/day', 1 / 4),
                   minT=('degK', 200), maxT=('degK', 315), dTy=('degK', 60), dThz=('degK', 10))


def hs_of(gname, b, tref, pv, spec='si'):
    k = ('hs', gname, tuple(b), tuple(tref), pv, spec)
    if k not in _cache:
        j = J(); u = j['units']
        coords = j['cs'].CoordinateSystem(grid_of(gname), j['sc'].SigmaCoordinates(np.asarray(b, dtype=np.float64)))
        kw = {}
        for name, v in HS_VARIANTS[pv].items():
            if isinstance(v, tuple):
                unit, mag = v
                kw[name] = {'1/day': mag / u.day, 'degK': mag * u.degK, 'pascal': mag * u.pascal}[unit]
            else:
                kw[name] = v
        _cache[k] = (j['hs'].HeldSuarezForcing(coords, specs_of(spec), np.asarray(tref, dtype=np.float64), **kw), coords)
    return _cache[k]


def hs_params_indep(pv, spec):
    """The nondimensional parameters from the constructor arguments and the unit scale (not from the object)."""
    j = J(); u = j['units']; sp = specs_of(spec)
    unit = {'1/day': float(sp.nondimensionalize(1 / u.day)), 'degK': float(sp.nondimensionalize(1 * u.degK)),
            'pascal': float(sp.nondimensionalize(1 * u.pascal))}
    d = dict(HS_DEFAULTS); d.update(HS_VARIANTS[pv])
    return [(v[1] * unit[v[0]] if isinstance(v, tuple) else float(v)) for v in (d[n] for n in ('p0', 'sigma_b', 'kf', 'ka', 'ks', 'minT', 'maxT', 'dTy', 'dThz'))]


def hs_indep(P, sig, lat, ps, kappa):
    """numpy transcription of Held & Suarez (1994): kv (K,), kt (K,1,Y) and Teq (K,X,Y)."""
    p0, sb, kf, ka, ks, minT, maxT, dTy, dThz = P
    cut = np.maximum(0.0, (sig - sb) / (1 - sb))
    kv = kf * cut
    kt = ka + (ks - ka) * cut[:, None, None] * np.cos(lat)[None, None, :] ** 4
    teq = None
    if ps is not None:
        pp = sig[:, None, None] * ps[None] / p0
        teq = np.maximum(minT, pp ** kappa * (maxT - dTy * np.sin(lat)[None, None, :] ** 2 - dThz * np.log(pp) * np.cos(lat)[None, None, :] ** 2))
    return kv, kt, teq


def hs_params(F):
    return [float(F.p0), float(F.sigma_b), float(F.kf), float(F.ka), float(F.ks), float(F.minT), float(F.maxT), float(F.dTy), float(F.dThz)]


def grid_mats(gname):
    """The horizontal operators as matrices (rows: output index), from the implementation."""
    k = ('mats', gname)
    if k not in _cache:
        j = J(); sh = j['sh']; jnp = j['jnp']
        g = grid_of(gname)
        M, L = g.modal_shape; X, Y = g.nodal_shape; nm, nn = M * L, X * Y
        eM = jnp.asarray(np.eye(nm).reshape(nm, M, L)); zM = jnp.zeros((nm, M, L))
        eN = jnp.asarray(np.eye(nn).reshape(nn, X, Y))
        T = lambda x, n: np.asarray(x).reshape(x.shape[0], n).T.copy()
        d = {'nm': nm, 'nn': nn, 'toN': T(g.to_nodal(eM), nn), 'toM': T(g.to_modal(eN), nm)}
        cu, cv = sh.get_cos_lat_vector(eM, zM, g, clip=False); d['CUv'], d['CVv'] = T(cu, nm), T(cv, nm)
        cu, cv = sh.get_cos_lat_vector(zM, eM, g, clip=False); d['CUd'], d['CVd'] = T(cu, nm), T(cv, nm)
        d['CRu'] = T(g.curl_cos_lat((eM, zM)), nm); d['CRv'] = T(g.curl_cos_lat((zM, eM)), nm)
        d['DVu'] = T(g.div_cos_lat((eM, zM)), nm); d['DVv'] = T(g.div_cos_lat((zM, eM)), nm)
        lon, sinlat = g.nodal_mesh
        lat = np.arcsin(sinlat)
        d['cosl'] = np.broadcast_to(np.cos(lat), (X, Y)).ravel().copy()     # what kt / Teq use
        d['sinl'] = np.broadcast_to(np.sin(lat), (X, Y)).ravel().copy()
        d['cosl_grid'] = np.broadcast_to(np.asarray(g.cos_lat), (X, Y)).ravel().copy()   # what the drag divides by
        l = np.broadcast_to(np.arange(L)[None, :], (M, L)); mm = np.broadcast_to(np.arange(M)[:, None], (M, L))
        d['low'] = ((l <= L - 2) & np.asarray(g.mask, dtype=bool) & ~((l == 0))).ravel()
        d['mask'] = np.asarray(g.mask, dtype=bool)
        _cache[k] = d
    return _cache[k]


def r_hs_defaults(ctx, a):
    j = J()
    d = j['hs'].HeldSuarezForcing.__init__.__defaults__
    impl = [float(getattr(x, 'magnitude', x)) for x in d]
    ctx.corr('HeldSuarezForcing default parameters', impl, ctx.model.call(26, [], [[]]), scale=1.0)
    p0, sb, kf, ka, ks, minT, maxT = impl[:7]
    ctx.oracle('default rates non-negative and ordered, boundary layer below the surface',
               kf >= 0 and 0 < ka <= ks and 0 < sb < 1 and 0 < minT <= maxT, impl)


def r_hs_coeffs(ctx, a):
    spec = a.get('spec', 'si')
    F, coords = hs_of(a['grid'], a['b'], a['tref'], a['pv'], spec)
    P = hs_params(F); sig = np.asarray(F.sigma)
    Pi = hs_params_indep(a['pv'], spec)
    Pa, Pia = np.asarray(P), np.asarray(Pi)
    ctx.oracle_close('parameters are the nondimensionalised constructor arguments',
                     np.where(Pia != 0, Pa / np.where(Pia != 0, Pia, 1.0), 1.0 + Pa), np.ones(Pa.size), scale=1.0)
    bb = np.asarray(a['b'], dtype=np.float64); sig_i = (bb[1:] + bb[:-1]) / 2
    _, lat_i = grid_nodes(a['grid'])
    ctx.oracle_close('levels and latitudes of the forcing are those of the coordinates', np.concatenate([sig, np.asarray(F.lat)[0, :]]),
                     np.concatenate([sig_i, lat_i]), scale=1.0)
    kv = np.asarray(F.kv()); kt = np.asarray(F.kt())
    K = sig.size
    ctx.exact('kv shape', list(kv.shape), [K, 1, 1]); ctx.exact('kt shape', list(kt.shape), list(coords.nodal_shape))
    ctx.corr('HeldSuarezForcing.kv', kv.ravel(), ctx.model.call(20, [], [P, sig]), scale=abs(P[2]) + 1e-300)
    cl = np.cos(lat_i)
    ctx.corr('HeldSuarezForcing.kt', kt[:, 0, :], ctx.model.call(21, [], [P, sig, cl]), scale=max(abs(P[3]), abs(P[4])))
    ctx.oracle_close('kt independent of longitude', kt, np.broadcast_to(kt[:, :1, :], kt.shape), scale=abs(P[4]) + abs(P[3]))
    # ---- clauses, against an independent numpy transcription with independent parameters / coordinates
    kv_i, kt_i, _ = hs_indep(Pi, sig_i, lat_i, None, 0.0)
    ctx.oracle_close('friction rate = kf max(0, (sigma - sigma_b)/(1 - sigma_b)) (independent)', kv.ravel(), kv_i, scale=abs(Pi[2]) + 1e-300)
    ctx.oracle_close('relaxation rate = ka + (ks - ka) max(0, .) cos^4(lat) (independent)', kt, np.broadcast_to(kt_i, kt.shape), scale=max(abs(Pi[3]), abs(Pi[4])))
    sb, kf, ka, ks = Pi[1], Pi[2], Pi[3], Pi[4]
    ctx.oracle('friction rate non-negative', bool(np.all(kv >= 0)), kv.ravel())
    ctx.oracle('friction rate exactly zero above the boundary layer', bool(np.all(kv.ravel()[sig_i <= sb] == 0)), {'kv': kv.ravel(), 'sigma': sig_i, 'sigma_b': sb})
    if kf > 0:
        ctx.oracle('friction rate positive inside the boundary layer', bool(np.all(kv.ravel()[sig_i > sb + 1e-12] > 0)), kv.ravel())
    ctx.count('hs:levels-above-bl', int((sig_i < sb).sum())); ctx.count('hs:levels-in-bl', int((sig_i > sb).sum())); ctx.count('hs:levels-at-bl-top', int((sig_i == sb).sum()))
    if ks >= ka:
        eps = 2.0 ** -40
        ctx.oracle('relaxation rate at least ka (positive)', bool(np.all(kt >= ka * (1 - eps))) and ka > 0, {'min': float(kt.min()), 'ka': ka})
        ctx.oracle('relaxation rate at most ks', bool(np.all(kt <= ks * (1 + eps))), {'max': float(kt.max()), 'ks': ks})
    # purity: coefficients do not change between calls and the object keeps its parameters
    ctx.oracle('kv / kt repeatable and parameters unchanged', bool(np.array_equal(kv, np.asarray(F.kv())) and np.array_equal(kt, np.asarray(F.kt())) and hs_params(F) == P), None)


def _teq_model(ctx, F, P, sig_list, ps_flat, cosl, sinl, kappa):
    """Model equilibrium temperature for the given levels; ps_flat per nodal point. Returns (K, n) array of Fractions, and p."""
    p = ctx.model.call(22, [], [P, sig_list, ps_flat])
    n = len(ps_flat)
    out = []
    pf = np.array([float(v) for v in p])
    pk = pf ** kappa; lg = np.log(pf)
    for k in range(len(sig_list)):
        sl = slice(k * n, (k + 1) * n)
        out.append(ctx.model.call(23, [], [P, pk[sl], lg[sl], cosl, sinl]))
    return out, p, pk, lg


def r_hs_teq(ctx, a):
    j = J(); jnp = j['jnp']
    spec = a.get('spec', 'si')
    F, coords = hs_of(a['grid'], a['b'], a['tref'], a['pv'], spec)
    lon_i, lat_i = grid_nodes(a['grid'])
    X, Y = lon_i.size, lat_i.size
    cosl = np.broadcast_to(np.cos(lat_i), (X, Y)).ravel(); sinl = np.broadcast_to(np.sin(lat_i), (X, Y)).ravel()
    P = hs_params(F); sig = np.asarray(F.sigma); K = sig.size
    Pi = hs_params_indep(a['pv'], spec)
    ps = np.asarray(a['ps_rel'], dtype=np.float64) * P[0]
    ps_in = ps[None] if a.get('lead1') else ps            # (1, X, Y) and (X, Y) forms
    teq = np.asarray(F.equilibrium_temperature(jnp.asarray(ps_in)))
    ctx.exact('equilibrium_temperature shape', list(teq.shape), [K, X, Y])
    kappa = float(specs_of(spec).kappa)
    ctx.oracle_close('kappa of the specs is used', [kappa], [0.3 if spec == 'alt' else 2 / 7], scale=1.0)
    m, p, pk, lg = _teq_model(ctx, F, P, sig, ps.ravel(), cosl, sinl, kappa)
    p_impl = (sig[:, None, None] * ps / P[0]).reshape(-1)
    ctx.corr('p_over_p0', p_impl, p, scale=float(np.abs(p_impl).max()))
    scale = (abs(P[6]) + abs(P[7]) + abs(P[8]) * max(1.0, float(np.abs(lg).max()))) * max(1.0, float(pk.max()))
    for k in range(K):
        ctx.corr('equilibrium_temperature', teq[k].ravel(), m[k], scale=scale)
    # independent numpy transcription with independent parameters, levels and latitudes
    bb = np.asarray(a['b'], dtype=np.float64); sig_i = (bb[1:] + bb[:-1]) / 2
    _, _, teq_i = hs_indep(Pi, sig_i, lat_i, np.asarray(a['ps_rel'], dtype=np.float64) * Pi[0], 0.3 if spec == 'alt' else 2 / 7)
    ctx.oracle_close('equilibrium temperature = max(minT, (p/p0)^kappa (maxT - dTy sin^2 - dThz log(p/p0) cos^2)) (independent)', teq, teq_i, scale=scale)
    ctx.oracle('equilibrium temperature bounded below by its floor', bool(np.all(teq >= Pi[5])), {'min': float(teq.min()), 'minT': Pi[5]})
    ctx.count('hs:teq-at-floor', int((teq == P[5]).sum())); ctx.count('hs:teq-above-floor', int((teq > P[5]).sum()))
    ctx.count('hs:columns-with-p-above-p0', int((p_impl > 1).sum()))
    teq2 = np.asarray(F.equilibrium_temperature(jnp.asarray(ps_in)))
    ctx.oracle('equilibrium temperature repeatable', bool(np.array_equal(teq, teq2)), None)


def r_hs_terms(ctx, a):
    j = J(); jnp = j['jnp']; pe = j['pe']
    spec = a.get('spec', 'si')
    F, coords = hs_of(a['grid'], a['b'], a['tref'], a['pv'], spec)
    G = grid_mats(a['grid']); g = grid_of(a['grid'])
    nm, nn = G['nm'], G['nn']
    P = hs_params(F); sig = np.asarray(F.sigma); K = sig.size
    Pi = hs_params_indep(a['pv'], spec)
    kappa = float(specs_of(spec).kappa)
    mask = G['mask']
    M, L = mask.shape
    lowmask = G['low'].reshape(M, L)
    sel = lowmask if a['low'] else mask
    st = {f: np.asarray(a['state'][f], dtype=np.float64) / 8 * sel for f in ('vor', 'div', 'tv')}
    # table obligation: uv round trip is the identity on low-degree modes
    sec2 = 1.0 / G['cosl_grid'] ** 2
    chain = G['toM'] @ (sec2[:, None] * G['toN'])
    Rvv = G['CRu'] @ chain @ G['CUv'] + G['CRv'] @ chain @ G['CVv']
    Rvd = G['CRu'] @ chain @ G['CUd'] + G['CRv'] @ chain @ G['CVd']
    Rdv = G['DVu'] @ chain @ G['CUv'] + G['DVv'] @ chain @ G['CVv']
    Rdd = G['DVu'] @ chain @ G['CUd'] + G['DVv'] @ chain @ G['CVd']
    low = G['low']; I = np.eye(nm)
    err = max(np.abs((Rvv - I)[:, low]).max(), np.abs(Rvd[:, low]).max(), np.abs(Rdv[:, low]).max(), np.abs((Rdd - I)[:, low]).max())
    ctx.table_obligation('H_uv_roundtrip', err <= 1e-10, {'grid': a['grid'], 'max_err': float(err), 'modes': int(low.sum())})
    ctx.table_obligation('cos_lat table of the grid is cos(arcsin(sin_lat)) > 0',
                         bool(np.all(G['cosl_grid'] > 0)) and float(np.abs(G['cosl_grid'] - G['cosl']).max()) <= 1e-14,
                         {'max_diff': float(np.abs(G['cosl_grid'] - G['cosl']).max())})
    # nodal log surface pressure -> modal
    lnps_nodal = math.log(P[0]) + np.asarray(a['lnps_nodal'], dtype=np.float64)
    lnps = np.asarray(g.to_modal(jnp.asarray(lnps_nodal)))[None]
    state = pe.State(vorticity=jnp.asarray(st['vor']), divergence=jnp.asarray(st['div']),
                     temperature_variation=jnp.asarray(st['tv']), log_surface_pressure=jnp.asarray(lnps))
    out = F.explicit_terms(state)
    o = {f: np.asarray(getattr(out, n)) for f, n in (('vor', 'vorticity'), ('div', 'divergence'), ('tv', 'temperature_variation'), ('lnps', 'log_surface_pressure'))}
    # model: exp of the model's nodal lnps
    ln_m = ctx.model.call(24, [nm, nn], [[], G['toN'].ravel(), lnps.ravel()])
    ps = np.exp(np.array([float(v) for v in ln_m]))
    teq_m, p, pk, lg = _teq_model(ctx, F, P, sig, ps, G['cosl'], G['sinl'], kappa)
    # reference friction rate: independent numpy transcription (not F.kv())
    bb = np.asarray(a['b'], dtype=np.float64); sig_i = (bb[1:] + bb[:-1]) / 2
    _, lat_i = grid_nodes(a['grid'])
    kv, kt_i, _ = hs_indep(Pi, sig_i, lat_i, None, 0.0)
    kt_max = max(abs(P[3]), abs(P[4]))
    mats = [G[n].ravel() for n in ('toN', 'toM', 'CUv', 'CUd', 'CVv', 'CVd', 'CRu', 'CRv', 'DVu', 'DVv')]
    wind_scale = float(np.abs(G['CRu']).sum(axis=1).max() + np.abs(G['CRv']).sum(axis=1).max()) * \
        float(np.abs(chain).sum(axis=1).max()) * float(max(np.abs(G['CUv']).sum(axis=1).max(), np.abs(G['CVd']).sum(axis=1).max()))
    for k in range(K):
        sl = slice(k * nn, (k + 1) * nn)
        m = ctx.model.call(25, [nm, nn], [P, [sig[k], a['tref'][k]], st['vor'][k].ravel(), st['div'][k].ravel(), st['tv'][k].ravel(),
                                          pk[sl], lg[sl], G['cosl_grid'], G['sinl']] + mats)
        vs = max(abs(P[2]), 1e-300) * wind_scale * max(1.0, float(np.abs(st['vor'][k]).max()), float(np.abs(st['div'][k]).max()))
        ctx.corr('explicit_terms.vorticity', o['vor'][k].ravel(), m[:nm], scale=vs)
        ctx.corr('explicit_terms.divergence', o['div'][k].ravel(), m[nm:2 * nm], scale=vs)
        ts = kt_max * (abs(a['tref'][k]) + abs(P[6]) + abs(P[7])) * float(np.abs(G['toM']).sum(axis=1).max()) * max(1.0, float(pk.max()))
        ctx.corr('explicit_terms.temperature_variation', o['tv'][k].ravel(), m[2 * nm:3 * nm], scale=ts)
    ctx.exact('explicit_terms.log_surface_pressure identically zero', o['lnps'].ravel().tolist(), [0.0] * o['lnps'].size)
    # ---- clauses on the implementation
    ctx.exact('log surface pressure tendency has the state shape', list(o['lnps'].shape), list(lnps.shape))
    ctx.oracle('no surface-pressure tendency', bool(np.all(o['lnps'] == 0)), {'max': float(np.abs(o['lnps']).max())})
    sb = Pi[1]
    above = sig_i <= sb
    ctx.oracle('no drag above the boundary layer', bool(np.all(o['vor'][above] == 0) and np.all(o['div'][above] == 0)),
               {'max': float(max(np.abs(o['vor'][above]).max(initial=0), np.abs(o['div'][above]).max(initial=0)))})
    if a['low']:
        s = max(abs(P[2]), 1e-300) * max(1.0, float(np.abs(st['vor']).max()), float(np.abs(st['div']).max())) * wind_scale
        ctx.oracle_close('vorticity tendency = -kv(sigma) * vorticity', o['vor'], -kv[:, None, None] * st['vor'], scale=s, tol_abs=1e-12 * s)
        ctx.oracle_close('divergence tendency = -kv(sigma) * divergence', o['div'], -kv[:, None, None] * st['div'], scale=s, tol_abs=1e-12 * s)
    else:
        # linearity of the drag for arbitrary states
        st2 = pe.State(vorticity=jnp.asarray(2 * st['vor']), divergence=jnp.asarray(-3 * st['div']),
                       temperature_variation=state.temperature_variation, log_surface_pressure=state.log_surface_pressure)
        st3 = pe.State(vorticity=jnp.asarray(0 * st['vor']), divergence=jnp.asarray(st['div']),
                       temperature_variation=state.temperature_variation, log_surface_pressure=state.log_surface_pressure)
        o2 = F.explicit_terms(st2); o3 = F.explicit_terms(st3)
        s = max(abs(P[2]), 1e-300) * max(1.0, float(np.abs(st['vor']).max()), float(np.abs(st['div']).max())) * wind_scale
        ctx.oracle_close('drag is linear in the wind', np.asarray(o2.vorticity), 2 * o['vor'] - 5 * np.asarray(o3.vorticity), scale=5 * s)
    if a.get('kind') == 'rest':
        ctx.oracle('a state at rest feels no drag (exact zeros)', bool(np.all(o['vor'] == 0) and np.all(o['div'] == 0)), None)
    if a.get('kind') == 'top':
        # a single coefficient at the highest retained total wavenumber: the drag must stay linear and bounded by kv |coefficient| * round-trip norm
        st2 = pe.State(vorticity=jnp.asarray(-4 * st['vor']), divergence=jnp.asarray(-4 * st['div']),
                       temperature_variation=state.temperature_variation, log_surface_pressure=state.log_surface_pressure)
        o2 = F.explicit_terms(st2)
        s2 = max(abs(P[2]), 1e-300) * 4 * max(1.0, float(np.abs(st['vor']).max()), float(np.abs(st['div']).max())) * wind_scale
        ctx.oracle_close('drag is linear in the wind (top wavenumber)', np.asarray(o2.vorticity), -4 * o['vor'], scale=s2)
        ctx.oracle_close('drag is linear in the wind (top wavenumber, divergence)', np.asarray(o2.divergence), -4 * o['div'], scale=s2)
    # temperature: to_modal(-kt (T - Teq)) with independent numpy kt / Teq / parameters / coordinates
    X, Y = g.nodal_shape
    psn = ps.reshape(X, Y)
    _, kt, teq = hs_indep(Pi, sig_i, lat_i, psn * (Pi[0] / P[0]), 0.3 if spec == 'alt' else 2 / 7)
    Tn = np.asarray(a['tref'])[:, None, None] + np.asarray(g.to_nodal(jnp.asarray(st['tv'])))
    want = np.asarray(g.to_modal(jnp.asarray(-kt * (Tn - teq))))
    ts = kt_max * (float(np.abs(Tn).max()) + abs(P[6]) + abs(P[7])) * float(np.abs(G['toM']).sum(axis=1).max()) * max(1.0, float(pk.max()))
    ctx.oracle_close('temperature tendency = relaxation toward the equilibrium temperature', o['tv'], want, scale=ts)
    ctx.oracle('relaxation opposes the departure from equilibrium (rates non-negative)', bool(np.all(kt >= 0)) if Pi[4] >= Pi[3] >= 0 else True, float(kt.min()))
    ctx.count('hs_terms:columns-with-p-above-p0', int((np.array([float(v) for v in p]) > 1).sum()))
    # purity: evaluate another forcing on the same coordinates in between, then the same state again
    other = hs_of(a['grid'], a['b'], a['tref'], (a['pv'] + 1) % len(HS_VARIANTS), spec)[0]
    other.explicit_terms(state)
    out2 = F.explicit_terms(state)
    same = all(np.array_equal(np.asarray(getattr(out, n)), np.asarray(getattr(out2, n)))
               for n in ('vorticity', 'divergence', 'temperature_variation', 'log_surface_pressure'))
    ctx.oracle('explicit_terms repeatable after evaluating another forcing; parameters unchanged', same and hs_params(F) == P, None)


# ---------------------------------------------------------------------------
# process time zone
def _indep_phases_dt(ref_dt, days):
    diy = datetime.datetime(ref_dt.year, 12, 31).timetuple().tm_yday
    fod = (60 * ref_dt.hour + ref_dt.minute) / 1440.0
    return 2 * np.pi * (ref_dt.timetuple().tm_yday - 1 + fod) / diy + 2 * np.pi * days / 365.25, 2 * np.pi * fod + 2 * np.pi * days


def r_tz(ctx, a):
    """np.datetime64 arguments denote UTC instants: everything that accepts them must give the same result as the
    equivalent naive-UTC datetime.datetime in EVERY process time zone.  TZ is restored in the finally block."""
    j = J(); rad = j['rad']; units = j['units']
    specs = specs_of(a.get('spec', 'si'))
    old = os.environ.get('TZ')
    try:
        os.environ['TZ'] = a['tz']; time.tzset()
        ctx.count('tz:zone-has-dst=%s' % bool(time.daylight))
        ref = datetime.datetime(*a['ref']); ref64 = np.datetime64(ref)
        coords = j['cs'].CoordinateSystem(grid_of(a['grid']), j['sc'].SigmaCoordinates.equidistant(2))
        srd = rad.SolarRadiation(coords, specs, ref)
        sr64 = rad.SolarRadiation(coords, specs, ref64)
        srn = rad.SolarRadiation.normalized(coords, specs, ref64)
        # reference phases: model (calendar integers of the UTC reference) vs both objects
        diy = datetime.datetime(ref.year, 12, 31).timetuple().tm_yday
        mref = ctx.model.call(7, [diy, ref.timetuple().tm_yday - 1, ref.hour, ref.minute], [[], [], [], [], [PI]])
        for nm_, o in (('datetime', srd), ('datetime64', sr64), ('datetime64, normalized', srn)):
            ctx.corr('SolarRadiation.reference_orbital_time (%s reference) in a DST time zone' % nm_,
                     [float(o.reference_orbital_time.orbital_phase), float(o.reference_orbital_time.synodic_phase)], mref, scale=2 * np.pi)
        D = float(specs.nondimensionalize(1 * units.day)); P = 1461 * D
        S, V = float(srd.total_solar_irradiance), float(srd.solar_irradiance_variation)
        lons, lats = grid_nodes(a['grid'])
        conv_ok = True; t_ok = True; per_ok = True; worst = None
        for k, it in enumerate(a['instants']):
            w = datetime.datetime(*it); w64 = np.datetime64(w)
            w2 = w + datetime.timedelta(days=1461); w264 = np.datetime64(w2)
            # the conversion itself
            if rad.datetime64_to_datetime(w64) != w or rad.datetime64_to_datetime(np.datetime64(w, 'ns')) != w:
                conv_ok = False; worst = worst or {'instant': it, 'got': str(rad.datetime64_to_datetime(w64))}
            want = (w - ref).total_seconds() / 86400.0 * D
            ts = [float(srd.datetime_to_time(w)), float(srd.datetime_to_time(w64)), float(sr64.datetime_to_time(w)), float(sr64.datetime_to_time(w64)),
                  float(rad.datetime_to_time(w64, specs, ref)), float(rad.datetime_to_time(w, specs, ref64)), float(rad.datetime_to_time(w64, specs, ref64))]
            tol = 1e-9 * max(abs(want), D)
            if not all(abs(x - want) <= tol for x in ts):
                t_ok = False; worst = worst or {'instant': it, 'times_in_days': [x / D for x in ts], 'want_days': want / D}
            t2 = float(sr64.datetime_to_time(w264))
            if abs((t2 - ts[3]) - P) > 1e-9 * P:
                per_ok = False; worst = worst or {'instant': it, 'elapsed_days': (t2 - ts[3]) / D}
            if k % 3 == 0:
                # flux at the instant: all reference / instant type combinations agree, night-zero against the independent solar position
                f_dd = np.asarray(srd.radiation_flux(ts[0])); f_64 = np.asarray(sr64.radiation_flux(ts[3]))
                f_mix = np.asarray(sr64.radiation_flux(float(sr64.datetime_to_time(w))))
                big = max(1.0, abs(want / D) * 2 * np.pi)
                ctx.oracle_close('same instant as datetime and as np.datetime64 gives the same flux in every time zone', f_64, f_dd, scale=(S + V) * big)
                ctx.oracle_close('same instant as datetime and as np.datetime64 gives the same flux in every time zone (mixed)', f_mix, f_dd, scale=(S + V) * big)
                iop, isyn = _indep_phases_dt(ref, (w - ref).total_seconds() / 86400.0)
                s_ref = _indep_sin_altitude(iop, isyn, lons[:, None], lats[None, :])
                mg = 1e-6 + 1e-12 * big
                ctx.oracle('flux exactly zero where the sun is below the horizon (np.datetime64 reference and instant, DST time zone)',
                           bool(np.all(f_64[s_ref < -mg] == 0)), {'instant': it, 'n_night': int((s_ref < -mg).sum()), 'max': float(np.max(f_64[s_ref < -mg], initial=0.0))})
                ctx.oracle('flux positive where the sun is above the horizon (np.datetime64 reference and instant, DST time zone)',
                           bool(np.all(f_64[s_ref > mg] > 0)), {'instant': it})
                ctx.oracle_close('flux = irradiance * max(0, sin altitude) (np.datetime64 reference and instant, DST time zone)',
                                 f_64, (S + V * np.cos(iop - 3 * 2 * np.pi / 365.25)) * np.maximum(0, s_ref), scale=(S + V) * big, tol_abs=(S + V) * 1e-9 * big)
                f_p = np.asarray(sr64.radiation_flux(t2))
                ctx.oracle_close('flux periodic over 1461 days between np.datetime64 instants (across DST switches)', f_p, f_64,
                                 scale=(S + V) * (big + 1461 * 2 * np.pi))
                fn = np.asarray(srn.radiation_flux(float(srn.datetime_to_time(w64))))
                ctx.oracle_close('normalised flux with np.datetime64 reference = flux / (S + V)', fn, f_dd / (S + V), scale=big)
        ctx.oracle('datetime64_to_datetime returns the UTC wall clock in every process time zone', conv_ok, worst)
        ctx.oracle('datetime_to_time agrees for datetime / np.datetime64 instants and references in every process time zone', t_ok, worst)
        ctx.oracle('np.datetime64 instants 1461 days apart are 1461 days of model time apart (across DST switches)', per_ok, worst)
    finally:
        if old is None: os.environ.pop('TZ', None)
        else: os.environ['TZ'] = old
        time.tzset()
    ctx.oracle('process time zone restored', os.environ.get('TZ') == old, None)


# ---------------------------------------------------------------------------
# Held-Suarez drag on tall grids (latitude-count thresholds)
def r_hs_tall(ctx, a):
    j = J(); jnp = j['jnp']; pe = j['pe']; sh = j['sh']
    spec = a.get('spec', 'si')
    F, coords = hs_of(a['grid'], a['b'], a['tref'], a['pv'], spec)
    g = grid_of(a['grid'])
    M, L = g.modal_shape; X, Y = g.nodal_shape
    Pi = hs_params_indep(a['pv'], spec); P = hs_params(F)
    bb = np.asarray(a['b'], dtype=np.float64); sig_i = (bb[1:] + bb[:-1]) / 2; K = sig_i.size
    lon_i, lat_i = grid_nodes(a['grid'])
    ctx.count('hs_tall:min-cos2-below-1e-4=%s' % bool(np.min(np.cos(lat_i) ** 2) < 1e-4))
    kv, kt_i, _ = hs_indep(Pi, sig_i, lat_i, None, 0.0)
    l = np.arange(L)[None, :]
    lowmask = np.asarray(g.mask, dtype=bool) & (l <= L - 2) & (l > 0)
    st = {}
    for f in ('vor', 'div', 'tv'):
        blk = np.asarray(a['state'][f], dtype=np.float64) / 8
        x = np.zeros((K, M, L)); x[:, :blk.shape[1], :blk.shape[2]] = blk[:K]
        st[f] = x * lowmask
    lnps = np.asarray(g.to_modal(jnp.full((X, Y), math.log(P[0]))))[None]
    state = pe.State(vorticity=jnp.asarray(st['vor']), divergence=jnp.asarray(st['div']),
                     temperature_variation=jnp.asarray(st['tv']), log_surface_pressure=jnp.asarray(lnps))
    out = F.explicit_terms(state)
    o = {'vor': np.asarray(out.vorticity), 'div': np.asarray(out.divergence), 'lnps': np.asarray(out.log_surface_pressure)}
    smax = max(1.0, float(np.abs(st['vor']).max()), float(np.abs(st['div']).max()))
    cos2 = np.cos(lat_i) ** 2                                  # independent of the grid object
    nm = M * L
    if nm <= 64:
        # operators on the (small) modal space as matrices; the sec^2 chain uses the INDEPENDENT 1 / cos^2
        eM = jnp.asarray(np.eye(nm).reshape(nm, M, L)); zM = jnp.zeros((nm, M, L))
        T = lambda x: np.asarray(x).reshape(nm, nm).T.copy()
        toN_all = np.asarray(g.to_nodal(eM))                   # (nm, X, Y)
        chain = T(g.to_modal(jnp.asarray(toN_all / cos2[None, None, :])))
        cu, cv = sh.get_cos_lat_vector(eM, zM, g, clip=False); CUv, CVv = T(cu), T(cv)
        cu, cv = sh.get_cos_lat_vector(zM, eM, g, clip=False); CUd, CVd = T(cu), T(cv)
        CRu, CRv = T(g.curl_cos_lat((eM, zM))), T(g.curl_cos_lat((zM, eM)))
        DVu, DVv = T(g.div_cos_lat((eM, zM))), T(g.div_cos_lat((zM, eM)))
        n1 = lambda A: float(np.abs(A).sum(axis=1).max())
        wind_scale = (n1(CRu) + n1(CRv)) * n1(chain) * max(n1(CUv), n1(CVd))
        Rvv = CRu @ chain @ CUv + CRv @ chain @ CVv; Rvd = CRu @ chain @ CUd + CRv @ chain @ CVd
        Rdv = DVu @ chain @ CUv + DVv @ chain @ CVv; Rdd = DVu @ chain @ CUd + DVv @ chain @ CVd
        low = lowmask.ravel(); I = np.eye(nm)
        err = max(np.abs((Rvv - I)[:, low]).max(), np.abs(Rvd[:, low]).max(), np.abs(Rdv[:, low]).max(), np.abs((Rdd - I)[:, low]).max())
        ctx.table_obligation('H_uv_roundtrip', err <= 1e-10, {'grid': a['grid'], 'max_err': float(err), 'modes': int(low.sum())})
        s = max(abs(Pi[2]), 1e-300) * smax * wind_scale
        # float64 transcription of C20_hs_drag_through_wind with independent kv and 1 / cos^2
        vv = st['vor'].reshape(K, nm); dd = st['div'].reshape(K, nm)
        ctx.oracle_close('vorticity tendency = -kv * curl(to_modal(to_nodal(cos_lat u) / cos^2)) (independent kv and cos^2)',
                         o['vor'].reshape(K, nm), -kv[:, None] * (vv @ Rvv.T + dd @ Rvd.T), scale=s)
        ctx.oracle_close('divergence tendency = -kv * div(to_modal(to_nodal(cos_lat u) / cos^2)) (independent kv and cos^2)',
                         o['div'].reshape(K, nm), -kv[:, None] * (vv @ Rdv.T + dd @ Rdd.T), scale=s)
    else:
        # large grid: scale from the norm of the state only (round trip has norm O(1) on low-degree states)
        s = max(abs(Pi[2]), 1e-300) * smax * 64.0
    ctx.oracle_close('vorticity tendency = -kv(sigma) * vorticity', o['vor'], -kv[:, None, None] * st['vor'], scale=s, tol_abs=1e-12 * s)
    ctx.oracle_close('divergence tendency = -kv(sigma) * divergence', o['div'], -kv[:, None, None] * st['div'], scale=s, tol_abs=1e-12 * s)
    above = sig_i <= Pi[1]
    ctx.oracle('no drag above the boundary layer', bool(np.all(o['vor'][above] == 0) and np.all(o['div'][above] == 0)), None)
    ctx.oracle('no surface-pressure tendency', bool(np.all(o['lnps'] == 0)) and o['lnps'].shape == lnps.shape, None)
    if a.get('model') and nm <= 64:
        # exact model for the rows next to the poles (where 1 / cos^2 is largest), float64 for the remaining rows:
        # tendency = sum over nodes p of toM[:, p] * (-kv) * (toN cm)[p] / cos^2[p] is additive in p
        rows = np.array([0, Y - 1])
        A = np.array([(x, y) for x in range(X) for y in rows])
        nA = len(A)
        toN_A = toN_all[:, A[:, 0], A[:, 1]].T.copy()                                   # (nA, nm)
        eA = np.zeros((nA, X, Y)); eA[np.arange(nA), A[:, 0], A[:, 1]] = 1.0
        toM_A = np.asarray(g.to_modal(jnp.asarray(eA))).reshape(nA, nm).T.copy()        # (nm, nA)
        cosA = np.asarray(g.cos_lat)[A[:, 1]]                                            # what the implementation divides by
        chain_A = toM_A @ (toN_A / (cosA ** 2)[:, None])
        chain_B = chain - chain_A
        k = int(np.argmax(kv))                                                           # a level inside the boundary layer
        mats = [toN_A.ravel(), toM_A.ravel()] + [m_.ravel() for m_ in (CUv, CUd, CVv, CVd, CRu, CRv, DVu, DVv)]
        one = np.ones(nA)
        m = ctx.model.call(25, [nm, nA], [P, [sig_i[k], a['tref'][k]], st['vor'][k].ravel(), st['div'][k].ravel(), st['tv'][k].ravel(),
                                          one, 0 * one, cosA, np.sin(lat_i)[A[:, 1]]] + mats)
        cmu = CUv @ vv[k] + CUd @ dd[k]; cmv = CVv @ vv[k] + CVd @ dd[k]
        restv = -kv[k] * (CRu @ (chain_B @ cmu) + CRv @ (chain_B @ cmv))
        restd = -kv[k] * (DVu @ (chain_B @ cmu) + DVv @ (chain_B @ cmv))
        ctx.corr('explicit_terms.vorticity (polar rows by the exact model, remaining rows in float64)', o['vor'][k].ravel(),
                 [m[i] + Fraction(float(restv[i])) for i in range(nm)], scale=s)
        ctx.corr('explicit_terms.divergence (polar rows by the exact model, remaining rows in float64)', o['div'][k].ravel(),
                 [m[nm + i] + Fraction(float(restd[i])) for i in range(nm)], scale=s)


RUNNERS = {'constants': r_constants, 'flux': r_flux, 'reftime': r_reftime, 'solar': r_solar, 'globalmean': r_globalmean,
           'hs_defaults': r_hs_defaults, 'hs_coeffs': r_hs_coeffs, 'hs_teq': r_hs_teq, 'hs_terms': r_hs_terms,
           'tz': r_tz, 'hs_tall': r_hs_tall}
