"""C08 - forward/reverse derivatives: (i) jax.jvp of the implementation vs the
carrier-generic Gallina model run at dual numbers over exact rationals
(extracted), (ii) the property's clauses on the implementation's differentiable
entry points: jvp finite, jvp = central difference (Richardson), vjp = adjoint of
jvp, checkpoint/scan nesting irrelevant for gradients."""
import itertools
import numpy as np
from harness import util, dyn

THEOREMS = ['C08_dual_ring', 'C08_dual_is_derivative', 'C08_derivative_linear',
            'C08_central_difference_exact_deg2', 'C08_central_difference_deg3', 'C08_matvec_adjoint',
            'C08_compose_adjoint', 'C08_cumsum_adjoint', 'C08_product_jacobian_adjoint',
            'C08_linear_jvp_is_self', 'C08_linear_jvp_vjp', 'C08_advection_jvp', 'C08_checkpoint_irrelevant', 'C08_example']
LEVEL = 'proof'
LEVEL_TEXT = ('Coq theorems: dual numbers form a commutative ring; for EVERY expression of field operations evaluation '
              'at x+eps*v yields (value, directional derivative); the derivative is linear in the tangent; central '
              'differences equal it exactly for degree <= 2 (error h^2*c3 for degree 3); adjoint identities '
              '<Av,w> = <v,A^T w> for matrix products, compositions, cumsum/reverse-cumsum, pointwise products, all '
              'sizes. The same Gallina model terms are executed at the dual-number carrier (extraction) and compared '
              'with jax.jvp of the implementation. JAX AD itself and the transcendental parts are decided by '
              'exploration on the implementation (jvp vs Richardson central difference, vjp-jvp dot test, '
              'finiteness, checkpoint/nesting invariance) - that part is exploration, stated as such.')
LEVEL_NOTE = ('JAX AD, jax.checkpoint and XLA are trusted/exercised, not modelled; exp/log/power parts (Held-Suarez, moist '
              'rational terms) are only explored; dual-number correspondence covers the sigma-coordinate column '
              'operators, the T*omega/p column operator and the implicit temperature operator (dense and cumulative-sum)')
TECHNIQUE = 'Coq proof (dual-number derivative + adjoint theorems) with extracted dual-carrier model vs jax.jvp; AD oracles by exploration'


def generate(ctx):
    rng = ctx.rng
    quick = ctx.tier == 'quick'
    for K in ([1, 2, 3, 5] if quick else [1, 2, 3, 4, 5, 8, 12]):
        for r in range(1 if quick else 3):
            b = util.uneven_boundaries(rng, K).tolist()
            x = util.small_rationals(rng, (K,)).tolist(); v = util.small_rationals(rng, (K,)).tolist()
            w = util.small_rationals(rng, (max(K - 1, 0),)).tolist(); dw = util.small_rationals(rng, (max(K - 1, 0),)).tolist()
            yield 'jvp_sigma', {'b': b, 'x': x, 'v': v, 'w': w, 'dw': dw}
    # level sets that are nearly equidistant, end only close to 0 / 1, or have extremely thin layers (dual-number model, exact)
    special = [[round(k / 7, 7) for k in range(8)], [5e-9, 0.25, 0.625, 1.000005], [0.0, 2.0 ** -30, 0.5, 0.5 + 2.0 ** -25, 1.0],
               [0.0, 0.3125, 0.999998]]
    for b in (special if not quick else special[:3]):
        K = len(b) - 1
        x = util.small_rationals(rng, (K,)).tolist(); v = util.small_rationals(rng, (K,)).tolist()
        w = util.small_rationals(rng, (K - 1,)).tolist(); dw = util.small_rationals(rng, (K - 1,)).tolist()
        yield 'jvp_sigma', {'b': b, 'x': x, 'v': v, 'w': w, 'dw': dw}
    for K in ([1, 2, 3, 5] if quick else [1, 2, 3, 4, 6, 8]):
        b = util.uneven_boundaries(rng, K).tolist()
        arr = lambda: util.small_rationals(rng, (K,)).tolist()
        tref = (250.0 + rng.integers(-80, 81, size=K) / 4.0).tolist()
        if K >= 3 and rng.integers(0, 2): tref[-1] = tref[0]
        yield 'jvp_primeq', {'b': b, 'tref': tref, 'T': arr(), 'g': arr(), 'vg': arr(), 'dT': arr(), 'dg': arr(), 'dvg': arr(),
                              'div': arr(), 'ddiv': arr()}
    # differentiable entry points of the implementation
    ents = [('grid_ops', {}), ('filters', {}), ('interp', {})]
    kinds = ['dry', 'moist'] if quick else ['dry', 'time', 'moist', 'cloud']
    for kind in kinds:
        ents.append(('pe_terms', {'kind': kind}))
    # states exactly at rest (zero wind): derivative singularities (sqrt/norm at 0, kinks at 0) only show here
    ents.append(('pe_terms', {'kind': 'dry', 'rest': True}))
    ents.append(('pe_terms', {'kind': 'dry', 'rest': True, 'upwind': True}))
    ents.append(('pe_terms', {'kind': 'dry', 'upwind': True}))
    ents.append(('sw_terms', {'rest_layer': True}))
    # non-default options and layouts; coefficients up to the highest retained (unclipped) wavenumber
    ents.append(('pe_terms', {'kind': 'moist', 'matmul': 'sparse'}))
    ents.append(('pe_terms', {'kind': 'dry', 'impl': 'fast', 'inv_methods': True}))
    ents.append(('pe_terms', {'kind': 'dry', 'degree': 3}))
    ents.append(('pe_step', {'kind': 'dry', 'integrator': 'crank_nicolson_rk2', 'filters': [], 'nsteps': 1, 'dt': -0.02}))
    # moist equations linearised at a state with identically zero humidity, humidity in the tangent
    ents.append(('pe_terms', {'kind': 'moist', 'dry_air': True}))
    # digital filter initialisation: a multi-step entry point evaluated several times in one process
    ents.append(('dfi', {'kind': 'sw'}))
    if not quick: ents.append(('dfi', {'kind': 'dry'})); ents.append(('dfi', {'kind': 'time'}))
    ents.append(('pe_step', {'kind': 'time', 'integrator': 'crank_nicolson_rk2', 'filters': [], 'nsteps': 2}))
    ents.append(('pe_terms', {'kind': 'time'}))
    ents.append(('sw_step', {'integrator': 'backward_forward_euler', 'rest_layer': True}))
    steps = ([('dry', 'imex_rk_sil3', ['exponential']), ('moist', 'crank_nicolson_rk3', []), ('dry', 'backward_forward_euler', ['diffusion'])]
             if quick else [(k, i, f) for k in ['dry', 'moist'] for i in dyn.INTEGRATORS for f in ([], ['exponential', 'diffusion'])])
    for kind, integ, filt in steps:
        ents.append(('pe_step', {'kind': kind, 'integrator': integ, 'filters': filt, 'nsteps': 1 if quick else 2}))
    ents.append(('sw_terms', {}))
    for integ in (['crank_nicolson_rk2'] if quick else list(dyn.INTEGRATORS)):
        ents.append(('sw_step', {'integrator': integ}))
    ents.append(('held_suarez', {}))
    for name, a in ents:
        a = dict(a); a['seed'] = int(rng.integers(0, 2 ** 31))
        yield name, a
    lens = [(6, [2, 3]), (8, [2, 2, 2]), (4, [4]), (6, [6, 1]), (12, [3, 2, 2])] if quick else \
           [(n, list(f)) for n in (4, 6, 8, 12, 16) for f in _factorizations(n)]
    for n, f in lens:
        yield 'checkpoint', {'length': n, 'nested': f, 'seed': int(rng.integers(0, 2 ** 31))}


def _factorizations(n, minf=1):
    out = [[n]]
    for a in range(2, n):
        if n % a == 0:
            for rest in _factorizations(n // a):
                out.append([a] + rest)
    return out[:12]


# ---------------------------------------------------------------------------
def r_jvp_sigma(ctx, a):
    m = dyn.mods(); jax = m['jax']; jnp = m['jnp']; sc = m['sc']
    from dinosaur import primitive_equations as pe
    b = np.asarray(a['b']); K = len(b) - 1
    c = sc.SigmaCoordinates(b)
    x = np.asarray(a['x'], dtype=np.float64).reshape(K); v = np.asarray(a['v'], dtype=np.float64).reshape(K)
    w = np.asarray(a['w'], dtype=np.float64).reshape(max(K - 1, 0)); dw = np.asarray(a['dw'], dtype=np.float64).reshape(max(K - 1, 0))
    c2cmin = np.abs(c.center_to_center).min() if K > 1 else 1.0
    def cmp(name, f, primals, tangents, cmd, ints, arrs, scale):
        p, t = jax.jvp(f, tuple(jnp.asarray(q) for q in primals), tuple(jnp.asarray(q) for q in tangents))
        mo = ctx.model.call(cmd, ints, arrs)
        ctx.corr(name + ' (primal, tangent) vs dual-number model', np.concatenate([np.ravel(p), np.ravel(t)]), mo, scale=scale)
        ctx.oracle('derivative finite: ' + name, bool(np.all(np.isfinite(np.asarray(t)))))
    sx = float(np.abs(x).sum() + np.abs(v).sum()) + 1e-300
    for dot, down in itertools.product((1, 0), (1, 0)):
        cmp(f'cumulative_sigma_integral dot={dot} down={down}',
            lambda q: sc.cumulative_sigma_integral(q, c, axis=0, downward=bool(down), cumsum_method='dot' if dot else 'jax'),
            (x,), (v,), 0, [K, dot, down], [b, x, v], sx)
    ls = np.log(c.centers)
    for dot, down in itertools.product((1, 0), (1, 0)):
        cmp(f'cumulative_log_sigma_integral dot={dot} down={down}',
            lambda q: sc.cumulative_log_sigma_integral(q, c, axis=0, downward=bool(down), cumsum_method='dot' if dot else 'jax'),
            (x,), (v,), 3, [K, dot, down], [ls, x, v], sx * max(1.0, float(np.abs(ls).max())))
    cmp('centered_difference', lambda q: sc.centered_difference(q, c, axis=0), (x,), (v,), 2, [K], [b, x, v], sx / c2cmin)
    sw = float((np.abs(w).max() if w.size else 0) + (np.abs(dw).max() if w.size else 0) + 1) * float(np.abs(x).max() + np.abs(v).max() + 1) / c2cmin
    cmp('centered_vertical_advection', lambda ww, q: sc.centered_vertical_advection(ww, q, c, axis=0), (w, x), (dw, v),
        1, [K], [b, w, x, dw, v], sw)
    if not np.any(w == 0):
        cmp('upwind_vertical_advection', lambda ww, q: sc.upwind_vertical_advection(ww, q, c, axis=0), (w, x), (dw, v),
            5, [K], [b, w, x, dw, v], sw)
    T = x.reshape(K, 1, 1) + 250.0; dT = v.reshape(K, 1, 1)
    for sparse in (0, 1):
        cmp(f'get_geopotential_diff sparse={sparse}',
            lambda q: pe.get_geopotential_diff(q, c, 287.0, method='sparse' if sparse else 'dense'), (T,), (dT,),
            4, [K, sparse], [ls, T.ravel(), dT.ravel(), [287.0]], 287.0 * float(np.abs(ls).max()) * float(np.abs(T).sum() + np.abs(dT).sum()))


def r_jvp_primeq(ctx, a):
    """jax.jvp of the implementation's column operators of the primitive equations vs the dual-number
    run of Model/PrimEq.v / Model/Implicit.v."""
    m = dyn.mods(); jax = m['jax']; jnp = m['jnp']; sc = m['sc']; pe = m['pe']
    b = np.asarray(a['b']); K = len(b) - 1
    g = dyn.grid(M=2, L=3, I=4, J=3)
    c = dyn.coords(g, b); specs = dyn.pe_specs()
    tref = np.asarray(a['tref'], dtype=np.float64)
    eq = dyn.pe_equation('dry', c, specs, tref)
    ls = np.log(c.vertical.centers)
    col = lambda v: jnp.asarray(np.asarray(v, dtype=np.float64).reshape(K, 1, 1))
    T, gterm, vg, dT, dg, dvg = (np.asarray(a[k], dtype=np.float64) for k in ('T', 'g', 'vg', 'dT', 'dg', 'dvg'))
    p, t = jax.jvp(lambda x, y, z: eq._t_omega_over_sigma_sp(x, y, z), (col(T), col(gterm), col(vg)), (col(dT), col(dg), col(dvg)))
    mo = ctx.model.call(6, [K], [ls, b, tref, [specs.R, specs.kappa], T, gterm, vg, dT, dg, dvg])
    th = float(np.min(np.diff(b)))
    scale = float((np.abs(T).max() + np.abs(dT).max() + 1) * (np.abs(vg).max() + np.abs(dvg).max()
                  + 2 * np.abs(ls).max() * (np.abs(gterm).sum() + np.abs(dg).sum()) / th) + 1e-300)
    ctx.corr('_t_omega_over_sigma_sp (primal, tangent) vs dual-number model', np.concatenate([np.ravel(p), np.ravel(t)]), mo, scale=scale)
    dv, ddv = np.asarray(a['div'], dtype=np.float64), np.asarray(a['ddiv'], dtype=np.float64)
    H = np.abs(pe.get_temperature_implicit_weights(c.vertical, tref, specs.kappa)).max() + 1e-300
    for sparse in (0, 1):
        p, t = jax.jvp(lambda x: pe.get_temperature_implicit(x, c.vertical, tref, specs.kappa, method='sparse' if sparse else 'dense'),
                       (col(dv),), (col(ddv),))
        mo = ctx.model.call(7, [K, sparse], [ls, b, tref, [specs.R, specs.kappa], dv, ddv])
        ctx.corr(f'get_temperature_implicit sparse={sparse} (primal, tangent) vs dual-number model',
                 np.concatenate([np.ravel(p), np.ravel(t)]), mo, scale=float(H * K * (np.abs(dv).sum() + np.abs(ddv).sum()) / th + 1e-300))
        ctx.oracle(f'derivative finite: get_temperature_implicit sparse={sparse}', bool(np.all(np.isfinite(np.asarray(t)))))


# ---------------------------------------------------------------------------
def _rand_like(rng, tree, amp=1.0, admissible=None):
    """Random tangent/cotangent with the structure of `tree`; `admissible(leaf_array)` may project."""
    m = dyn.mods(); jax = m['jax']; jnp = m['jnp']
    def f(x):
        x = np.asarray(x, dtype=np.float64)
        r = rng.integers(-8, 9, size=x.shape).astype(np.float64) / 8 * amp
        if admissible is not None and x.ndim >= 2: r = admissible(r)
        return jnp.asarray(r) if x.ndim else jnp.asarray(float(r))
    return jax.tree_util.tree_map(f, tree)


def _ad_oracles(ctx, name, f, x, v, w=None, h=1e-3, fd_tol=1e-7, adj_tol=1e-10, poly=False):
    """The property's clauses for one differentiable entry point f at primal x, tangent v, cotangent w."""
    m = dyn.mods(); jax = m['jax']; jnp = m['jnp']
    tm = jax.tree_util.tree_map
    fj = jax.jit(f)
    y, jv = jax.jvp(fj, (x,), (v,))
    ctx.oracle(f'{name}: forward-mode derivative finite', dyn.tree_all_finite(jv) and dyn.tree_all_finite(y))
    if w is None:
        w = _rand_like(ctx._c08_rng, y)
    _, vjp = jax.vjp(fj, x)
    (jtw,) = vjp(w)
    ctx.oracle(f'{name}: reverse-mode derivative finite', dyn.tree_all_finite(jtw))
    lhs = dyn.tree_vdot(jv, w); rhs = dyn.tree_vdot(v, jtw)
    sc = sum(float(np.sum(np.abs(np.asarray(a) * np.asarray(b)))) for a, b in zip(dyn.tree_leaves(jv), dyn.tree_leaves(w))) + \
         sum(float(np.sum(np.abs(np.asarray(a) * np.asarray(b)))) for a, b in zip(dyn.tree_leaves(v), dyn.tree_leaves(jtw))) + 1e-300
    ctx.oracle(f'{name}: <J v, w> = <v, J^T w>', abs(lhs - rhs) <= adj_tol * sc,
               {'lhs': lhs, 'rhs': rhs, 'scale': sc})
    # central differences with one Richardson step
    def D(hh):
        yp = fj(tm(lambda a, b: a + hh * b, x, v)); ym = fj(tm(lambda a, b: a - hh * b, x, v))
        return tm(lambda p, q: (np.asarray(p, dtype=np.float64) - np.asarray(q, dtype=np.float64)) / (2 * hh), yp, ym)
    d1 = D(h); d2 = D(h / 2)
    rich = tm(lambda a, b: (4 * b - a) / 3, d1, d2)
    err = max(float(np.max(np.abs(np.asarray(r) - np.asarray(j, dtype=np.float64)))) if np.size(r) else 0.0
              for r, j in zip(dyn.tree_leaves(rich), dyn.tree_leaves(jv)))
    scale = max(dyn.tree_maxabs(jv), dyn.tree_maxabs(y) * 1e-3, 1e-300)
    ctx.oracle(f'{name}: jvp = central finite difference (Richardson)', err <= fd_tol * scale + 1e-9 * dyn.tree_maxabs(y) / h,
               {'err': err, 'scale': scale})


def _seed(ctx, a):
    ctx._c08_rng = np.random.Generator(np.random.PCG64(a['seed']))
    return ctx._c08_rng


def r_grid_ops(ctx, a):
    rng = _seed(ctx, a); m = dyn.mods(); jnp = m['jnp']
    from dinosaur import spherical_harmonic as sh
    for impl in ('real', 'fast'):
        g = dyn.grid(M=4, L=5, I=13, J=7, impl=impl)
        x = jnp.asarray(dyn.modal_field(rng, g, (2,), degree=3)); v = jnp.asarray(dyn.modal_field(rng, g, (2,), degree=3))
        for nm in ('to_nodal', 'laplacian', 'inverse_laplacian', 'd_dlon', 'cos_lat_d_dlat', 'sec_lat_d_dlat_cos2', 'clip_wavenumbers'):
            _ad_oracles(ctx, f'Grid.{nm}[{impl}]', getattr(g, nm), x, v, poly=True)
        _ad_oracles(ctx, f'Grid.cos_lat_grad[{impl}]', lambda q: g.cos_lat_grad(q), x, v)
        _ad_oracles(ctx, f'Grid.div_cos_lat[{impl}]', lambda q: g.div_cos_lat((q, 2 * q)), x, v)
        _ad_oracles(ctx, f'Grid.curl_cos_lat[{impl}]', lambda q: g.curl_cos_lat((q, -q)), x, v)
        z = jnp.asarray(rng.integers(-8, 9, size=(2,) + tuple(g.nodal_shape)).astype(np.float64) / 8)
        dz = jnp.asarray(rng.integers(-8, 9, size=(2,) + tuple(g.nodal_shape)).astype(np.float64) / 8)
        _ad_oracles(ctx, f'Grid.to_modal[{impl}]', g.to_modal, z, dz)
        _ad_oracles(ctx, f'vor_div_to_uv_nodal[{impl}]', lambda q: sh.vor_div_to_uv_nodal(g, q, 0.5 * q), x, v)
        _ad_oracles(ctx, f'uv_nodal_to_vor_div_modal[{impl}]', lambda q: sh.uv_nodal_to_vor_div_modal(g, q, -q), z, dz)


def r_filters(ctx, a):
    rng = _seed(ctx, a); m = dyn.mods(); jnp = m['jnp']; ti = m['ti']; filtering = m['filtering']
    g = dyn.grid(M=4, L=5, I=13, J=7)
    x = {'u': jnp.asarray(dyn.modal_field(rng, g, (2,), 3)), 't': jnp.asarray(0.5)}
    v = {'u': jnp.asarray(dyn.modal_field(rng, g, (2,), 3)), 't': jnp.asarray(1.0)}
    _ad_oracles(ctx, 'exponential_filter', filtering.exponential_filter(g, 16, 2), x, v)
    _ad_oracles(ctx, 'horizontal_diffusion_filter', filtering.horizontal_diffusion_filter(g, 0.01, 2), x, v)
    f = ti.exponential_step_filter(g, 0.1, tau=1.0, order=3)
    _ad_oracles(ctx, 'exponential_step_filter', lambda q: f(q, q), x, v)
    f2 = ti.horizontal_diffusion_step_filter(g, 0.1, tau=1.0, order=1)
    _ad_oracles(ctx, 'horizontal_diffusion_step_filter', lambda q: f2(q, q), x, v)


def r_interp(ctx, a):
    rng = _seed(ctx, a); m = dyn.mods(); jnp = m['jnp']
    from dinosaur import vertical_interpolation as vi
    xp = np.cumsum(rng.integers(1, 5, size=6)).astype(np.float64)
    fp = jnp.asarray(rng.integers(-8, 9, size=6).astype(np.float64) / 4); dfp = jnp.asarray(rng.integers(-8, 9, size=6).astype(np.float64) / 4)
    q = jnp.asarray(np.array([xp[0] - 0.7, xp[1] + 0.3, xp[2] + 0.45, xp[4] + 0.2, xp[-1] + 0.9]))   # away from nodes
    dq = jnp.asarray(rng.integers(-8, 9, size=5).astype(np.float64) / 8)
    for nm, fn in (('interp', vi.interp), ('linear_interp_with_linear_extrap', vi.linear_interp_with_linear_extrap), ('_dot_interp', vi._dot_interp)):
        _ad_oracles(ctx, f'{nm} wrt data', lambda d: jnp.stack([fn(t, jnp.asarray(xp), d) for t in q]), fp, dfp)
        _ad_oracles(ctx, f'{nm} wrt query', lambda t: jnp.stack([fn(t[i], jnp.asarray(xp), fp) for i in range(5)]), q, dq, h=1e-4)


def _pe_setup(rng, kind, K=3, upwind=False, matmul=None, impl='real', degree=2):
    g = dyn.grid(M=4, L=5, I=13, J=7, impl=impl) if impl == 'real' else dyn.grid(M=4, L=5, I=13, J=7, impl='fast', base_shape_multiple=4)
    c = dyn.coords(g, util.uneven_boundaries(rng, K))
    specs = dyn.pe_specs()
    tref = 250.0 + rng.integers(-20, 21, size=K).astype(np.float64)
    oro = dyn.modal_field(rng, g, (), 2, amp=0.01)
    kw = {}
    if upwind:
        from dinosaur import sigma_coordinates as sc
        kw['vertical_advection'] = sc.upwind_vertical_advection
    if matmul:
        kw['vertical_matmul_method'] = matmul
    if oro.shape != tuple(g.modal_shape):          # padded layout
        oro = np.pad(oro, [(0, g.modal_shape[0] - oro.shape[0]), (0, g.modal_shape[1] - oro.shape[1])])
    eq = dyn.pe_equation(kind, c, specs, tref, oro, **kw)
    admissible = lambda r: r * (np.asarray(g.mask) & (g.modal_mesh[1] <= 2))
    def make(with_mean=True):
        st = dyn.pe_state(rng, c, degree, dyn.PE_TRACERS[kind], with_time=(kind != 'dry'))
        return st
    return g, c, eq, make


def _to_jnp(tree, clock=None):
    m = dyn.mods()
    t = m['jax'].tree_util.tree_map(lambda q: m['jnp'].asarray(q, dtype=np.float64), tree)
    if clock is not None and getattr(t, 'sim_time', None) is not None:
        # the clock is a differentiable leaf of the state: non-zero primal value and non-zero tangent component
        t = t.replace(sim_time=m['jnp'].asarray(clock, dtype=np.float64))
    return t


def _at_rest(st):
    m = dyn.mods(); jnp = m['jnp']
    return st.replace(vorticity=jnp.zeros_like(st.vorticity), divergence=jnp.zeros_like(st.divergence))


def r_pe_terms(ctx, a):
    rng = _seed(ctx, a)
    g, c, eq, make = _pe_setup(rng, a['kind'], upwind=a.get('upwind', False), matmul=a.get('matmul'), impl=a.get('impl', 'real'),
                               degree=a.get('degree', 2))
    x = _to_jnp(make(), 0.375); v = _to_jnp(make(), 0.75)
    tag = a['kind'] + ('[upwind]' if a.get('upwind') else '') + ('[%s]' % a['matmul'] if a.get('matmul') else '') + \
        ('[fast,padded]' if a.get('impl') == 'fast' else '') + ('[degree %d]' % a['degree'] if a.get('degree') else '')
    if a.get('rest'):
        x = _at_rest(x); tag += '[at rest]'
    if a.get('dry_air'):
        m_ = dyn.mods(); x = x.replace(tracers={k: m_['jnp'].zeros_like(q) for k, q in x.tracers.items()}); tag += '[q = 0]'
        # a tangent purely in humidity, and the generic tangent
        vq = v.replace(vorticity=0 * v.vorticity, divergence=0 * v.divergence, temperature_variation=0 * v.temperature_variation,
                       log_surface_pressure=0 * v.log_surface_pressure, sim_time=0.0 * v.sim_time)
        _ad_oracles(ctx, f'{tag}.explicit_terms (humidity tangent)', eq.explicit_terms, x, vq, fd_tol=1e-6)
    # upwind advection at rest sits exactly on the kink of max(w,0)/min(w,0): the central difference
    # there equals JAX's symmetric derivative only up to O(h) (one-sided second-order terms), so the
    # tolerance is relative 2e-3 with h = 1e-4 (a wrong branch choice gives O(1) relative errors)
    kink = bool(a.get('upwind') and a.get('rest'))
    _ad_oracles(ctx, f'{tag}.explicit_terms', eq.explicit_terms, x, v, h=1e-4 if kink else 1e-3,
                fd_tol=2e-3 if kink else (1e-5 if a.get('upwind') else 1e-6))
    if a.get('rest') or a.get('upwind'):
        step = dyn.integrator('backward_forward_euler', eq, 0.02)
        _ad_oracles(ctx, f'{tag} step backward_forward_euler', step, x, v, h=1e-4 if kink else 1e-3,
                    fd_tol=2e-3 if kink else 1e-5)
        return
    _ad_oracles(ctx, f'{tag}.implicit_terms', eq.implicit_terms, x, v)
    for eta in (0.05, -0.05):
        _ad_oracles(ctx, f'{tag}.implicit_inverse eta={eta}', lambda s: eq.implicit_inverse(s, eta), x, v)
    if a.get('inv_methods') and a['kind'] == 'dry':
        for meth in ('stacked', 'blockwise'):
            _ad_oracles(ctx, f'{tag}.implicit_inverse method={meth}', lambda s: eq.implicit_inverse(s, 0.05, method=meth), x, v)


def r_pe_step(ctx, a):
    rng = _seed(ctx, a); m = dyn.mods(); ti = m['ti']
    g, c, eq, make = _pe_setup(rng, a['kind'])
    dt = a.get('dt', 0.02)
    step = dyn.integrator(a['integrator'], eq, dt)
    step = ti.step_with_filters(step, dyn.step_filters(a['filters'], g, abs(dt)))
    if a['nsteps'] > 1: step = ti.repeated(step, a['nsteps'])
    x = _to_jnp(make(), 0.375); v = _to_jnp(make(), 0.75)
    _ad_oracles(ctx, f'{a["kind"]} step {a["integrator"]} filters={a["filters"]} n={a["nsteps"]}', step, x, v, fd_tol=1e-6)


def _sw_setup(rng):
    g = dyn.grid(M=4, L=5, I=13, J=7)
    c = dyn.layer_coords(g, 2)
    eq = dyn.sw_equation(c, [1.0, 1.25], [1.0, 0.5], dyn.modal_field(rng, g, (), 2, amp=0.05))
    return g, c, eq


def _sw_rest_layer(st):
    # lower layer exactly at rest
    return st.replace(vorticity=st.vorticity.at[1].set(0.0), divergence=st.divergence.at[1].set(0.0))


def r_sw_terms(ctx, a):
    rng = _seed(ctx, a); g, c, eq = _sw_setup(rng)
    x = _to_jnp(dyn.sw_state(rng, c)); v = _to_jnp(dyn.sw_state(rng, c))
    if a.get('rest_layer'): x = _sw_rest_layer(x)
    _ad_oracles(ctx, 'shallow_water.explicit_terms', eq.explicit_terms, x, v)
    _ad_oracles(ctx, 'shallow_water.implicit_terms', eq.implicit_terms, x, v)
    _ad_oracles(ctx, 'shallow_water.implicit_inverse', lambda s: eq.implicit_inverse(s, 0.1), x, v)


def r_sw_step(ctx, a):
    rng = _seed(ctx, a); g, c, eq = _sw_setup(rng)
    step = dyn.integrator(a['integrator'], eq, 0.05)
    x = _to_jnp(dyn.sw_state(rng, c)); v = _to_jnp(dyn.sw_state(rng, c))
    if a.get('rest_layer'): x = _sw_rest_layer(x)
    _ad_oracles(ctx, f'shallow water step {a["integrator"]}', step, x, v, fd_tol=1e-6)


def r_dfi(ctx, a):
    """digital_filter_initialization: derivative clauses, and the function must be the same function each
    time it is evaluated / traced in one process (jvp, vjp and the finite differences all trace it again)."""
    rng = _seed(ctx, a); m = dyn.mods(); ti = m['ti']
    if a['kind'] == 'sw':
        g, c, eq = _sw_setup(rng); x = _to_jnp(dyn.sw_state(rng, c)); v = _to_jnp(dyn.sw_state(rng, c))
    else:
        g, c, eq, make = _pe_setup(rng, a['kind']); x = _to_jnp(make(), 0.375); v = _to_jnp(make(), 0.75)
    dt = 0.02
    f = ti.digital_filter_initialization(eq, ti.imex_rk_sil3, dyn.step_filters(['exponential'], g, dt), time_span=8 * dt, cutoff_period=8 * dt, dt=dt)
    y1 = f(x); y2 = f(x); y3 = f(x)
    sc = max(dyn.tree_maxabs(y1), 1e-300)
    for u, w in zip(dyn.tree_leaves(y2) + dyn.tree_leaves(y3), dyn.tree_leaves(y1) + dyn.tree_leaves(y1)):
        ctx.oracle_close('digital_filter_initialization returns the same value on repeated evaluation', u, w, scale=sc, tol_rel=1e-13)
    _ad_oracles(ctx, f'digital_filter_initialization[{a["kind"]}]', f, x, v, fd_tol=1e-6)
    f2 = ti.digital_filter_initialization(eq, ti.imex_rk_sil3, dyn.step_filters(['exponential'], g, dt), time_span=8 * dt, cutoff_period=8 * dt, dt=dt)
    for u, w in zip(dyn.tree_leaves(f2(x)), dyn.tree_leaves(y1)):
        ctx.oracle_close('a second filter built with the same parameters equals the first', u, w, scale=sc, tol_rel=1e-13)


def r_held_suarez(ctx, a):
    rng = _seed(ctx, a)
    from dinosaur import held_suarez
    g = dyn.grid(M=4, L=5, I=13, J=7)
    c = dyn.coords(g, [0, 0.3, 0.6, 0.85, 1.0]); specs = dyn.pe_specs()
    tref = np.full(4, 260.0)
    hs = held_suarez.HeldSuarezForcing(c, specs, tref)
    lnps0 = float(np.log(specs.nondimensionalize(1e5 * dyn.mods()['scales'].units.pascal))) * 3.5449077
    x = _to_jnp(dyn.pe_state(rng, c, 2, lnps0=lnps0)); v = _to_jnp(dyn.pe_state(rng, c, 2))
    _ad_oracles(ctx, 'HeldSuarezForcing.explicit_terms', hs.explicit_terms, x, v, fd_tol=1e-6)


def r_checkpoint(ctx, a):
    rng = _seed(ctx, a); m = dyn.mods(); jax = m['jax']; jnp = m['jnp']; ti = m['ti']
    n = a['length']
    xs = jnp.asarray(rng.integers(-8, 9, size=(n, 3)).astype(np.float64) / 8)
    init = jnp.asarray(rng.integers(-8, 9, size=(3,)).astype(np.float64) / 8)
    A = jnp.asarray(rng.integers(-4, 5, size=(3, 3)).astype(np.float64) / 8)
    def body(cy, x):
        new = jnp.tanh(A @ cy) + x * cy
        return new, new * new
    def loss_nested(init, xs):
        cy, ys = ti.nested_checkpoint_scan(body, init, xs, length=n, nested_lengths=a['nested'])
        return jnp.sum(cy) + jnp.sum(ys * jnp.arange(1, n + 1)[:, None])
    def loss_flat(init, xs):
        cy, ys = jax.lax.scan(body, init, xs, length=n)
        return jnp.sum(cy) + jnp.sum(ys * jnp.arange(1, n + 1)[:, None])
    def loss_nock(init, xs):
        cy, ys = ti.nested_checkpoint_scan(body, init, xs, length=n, nested_lengths=a['nested'], checkpoint_fn=lambda f: f)
        return jnp.sum(cy) + jnp.sum(ys * jnp.arange(1, n + 1)[:, None])
    g1 = jax.grad(loss_nested, argnums=(0, 1))(init, xs); g2 = jax.grad(loss_flat, argnums=(0, 1))(init, xs)
    g3 = jax.grad(loss_nock, argnums=(0, 1))(init, xs)
    sc = max(dyn.tree_maxabs(g2), 1e-300)
    for u, v2 in zip(g1 + g3, g2 + g2):
        ctx.oracle_close('gradient of nested (checkpointed) scan = gradient of flat scan', u, v2, scale=sc, tol_rel=1e-11)
    ctx.oracle_close('value of nested scan = flat scan', loss_nested(init, xs), loss_flat(init, xs), tol_rel=1e-12)
    # a non-default scan function must be used at EVERY nesting level: with a reversed scan the nested scan is the
    # flat reversed scan (blocks in reverse order, elements of a block in reverse order), for values and gradients
    import functools
    rev = functools.partial(jax.lax.scan, reverse=True)
    wts = jnp.arange(1, n + 1)[:, None]
    def loss_nested_rev(init, xs):
        cy, ys = ti.nested_checkpoint_scan(body, init, xs, length=n, nested_lengths=a['nested'], scan_fn=rev)
        return jnp.sum(cy) + jnp.sum(ys * wts)
    def loss_flat_rev(init, xs):
        cy, ys = jax.lax.scan(body, init, xs, length=n, reverse=True)
        return jnp.sum(cy) + jnp.sum(ys * wts)
    g4 = jax.grad(loss_nested_rev, argnums=(0, 1))(init, xs); g5 = jax.grad(loss_flat_rev, argnums=(0, 1))(init, xs)
    sc5 = max(dyn.tree_maxabs(g5), 1e-300)
    for u, v2 in zip(g4, g5):
        ctx.oracle_close('gradient of nested scan with scan_fn = reversed scan equals gradient of the flat reversed scan', u, v2, scale=sc5, tol_rel=1e-11)
    ctx.oracle_close('value of nested scan with scan_fn = reversed scan = flat reversed scan', loss_nested_rev(init, xs), loss_flat_rev(init, xs), tol_rel=1e-12)
    _, jv_n = jax.jvp(loss_nested_rev, (init, xs), (init * 0 + 1.0, xs * 0 + 0.5)); _, jv_f = jax.jvp(loss_flat_rev, (init, xs), (init * 0 + 1.0, xs * 0 + 0.5))
    ctx.oracle_close('jvp of nested scan with scan_fn = reversed scan = jvp of the flat reversed scan', jv_n, jv_f, tol_rel=1e-11)


RUNNERS = {'jvp_sigma': r_jvp_sigma, 'jvp_primeq': r_jvp_primeq, 'grid_ops': r_grid_ops, 'filters': r_filters, 'interp': r_interp,
           'pe_terms': r_pe_terms, 'pe_step': r_pe_step, 'sw_terms': r_sw_terms, 'sw_step': r_sw_step,
           'held_suarez': r_held_suarez, 'dfi': r_dfi, 'checkpoint': r_checkpoint}
