"""C08 - forward/reverse derivatives: (i) jax.jvp of the implementation vs the
carrier-generic Gallina model run at dual numbers over exact rationals
(extracted), (ii) the property's clauses on the implementation's differentiable
entry points: jvp finite, jvp = central difference (Richardson), vjp = adjoint of
jvp, checkpoint/scan nesting irrelevant for gradients."""
import itertools
import numpy as np
from harness import util, dyn

THEOREMS = ['C08_dual_ring', 'C08_dual_is_derivative', 'C08_derivative_linear',
            'C08_central_difference_exact_deg2', 'C08_central_difference_deg3', 'C08_matvec_adjoint',
            'C08_compose_adjoint', 'C08_cumsum_adjoint', 'C08_product_jacobian_adjoint',
            'C08_linear_jvp_is_self', 'C08_linear_jvp_vjp', 'C08_advection_jvp', 'C08_checkpoint_irrelevant', 'C08_example',
            'C08_synth_analysis_adjoint', 'C08_synth_adjoint', 'C08_synthT_is_unweighted_analysis',
            'C08_analysis_adjoint', 'C08_analysisT_is_weighted_synth', 'C08_synth_jvp_is_self', 'C08_d_dlon_skew',
            'C08_D1_adjoint', 'C08_D2_adjoint', 'C08_D1T_is_neg_D2', 'C08_diag_self_adjoint',
            'C08_cos_lat_grad_adjoint', 'C08_grad_div_adjoint', 'C08_u_dot_grad_jvp', 'C08_sigma_dot_jvp',
            'C08_vertical_tendency_jvp', 'C08_t_omega_jvp', 'C08_temp_adiabatic_jvp',
            'C08_temp_vertical_tendency_jvp', 'C08_kinetic_jvp', 'C08_hsa_jvp', 'C08_rt_jvp', 'C08_combined_uv_jvp',
            'C08_temp_adiabatic_moist_jvp', 'C08_humidity_terms_jvp', 'C08_temp_nodal_total_jvp',
            'C08_log_pressure_tendency_jvp', 'C08_filter_jvp_is_self', 'C08_filter_self_adjoint', 'C08_ops_example',
            'C08_model_is_source']
LEVEL = 'proof'
LEVEL_TEXT = ('Coq theorems: dual numbers form a commutative ring; for EVERY expression of field operations evaluation '
              'at x+eps*v yields (value, directional derivative); the derivative is linear in the tangent; central '
              'differences equal it exactly for degree <= 2 (error h^2*c3 for degree 3); adjoint identities '
              '<Av,w> = <v,A^T w> for matrix products, compositions, cumsum/reverse-cumsum, pointwise products, all '
              'sizes. Concrete operators (all sizes, every carrier): the spherical-harmonic transforms are mutually adjoint '
              'up to the quadrature weights (vjp of to_nodal = to_modal without weights, vjp of to_modal = weights * to_nodal, '
              'for arbitrary tables); d_dlon skew-adjoint in both layouts, laplacian / inverse_laplacian / clip self-adjoint, '
              'explicit tridiagonal transposes of cos_lat_d_dlat / sec_lat_d_dlat_cos2, D1^T = -D2 and grad^T = -div under '
              'table obligations; every nonlinear nodal term of the primitive equations (u.grad lnps, sigma-dot, vertical '
              'advection, T omega/p, dry and moist adiabatic terms, kinetic energy, scalar advection, R T_v variants, the '
              'combined momentum terms, humidity corrections) evaluated at dual numbers equals its explicit product-rule '
              'linearisation, with the non-zero hypotheses (layer thickness, 1 + (Cpv/Cp - 1) q) stated; filters are linear, '
              'diagonal and self-adjoint. The same Gallina terms are executed at the dual-number carrier (extraction) and '
              'compared with jax.jvp of the implementation, the explicit transposes with jax.vjp / jax.linear_transpose on basis '
              'cotangents. JAX AD itself and the transcendental parts are decided by '
              'exploration on the implementation (jvp vs Richardson central difference, vjp-jvp dot test, '
              'finiteness, checkpoint/nesting invariance) - that part is exploration, stated as such.')
LEVEL_NOTE = ('JAX AD, jax.checkpoint and XLA are trusted/exercised, not modelled; exp/log/power parts (Held-Suarez, the exp '
              'table of the filters) are only explored or enter as constant tables; dual-number correspondence covers the '
              'sigma-coordinate column operators, every nodal array that explicit_terms hands to to_modal (dry, moist, cloud), '
              'the implicit temperature operator, to_nodal/to_modal (reference layout), the Grid differential operators '
              '(both layouts) and the filter rescaling; the fast transform layout, implicit_inverse, integrator steps and '
              'vertical interpolation are covered by the AD oracles only; D1^T = -D2 / grad^T = -div need a[.,l+1] = b[.,l] '
              '(table obligation, holds for unpadded layouts)')
TECHNIQUE = 'Coq proof (dual-number derivative + adjoint theorems) with extracted dual-carrier model vs jax.jvp; AD oracles by exploration'


def generate(ctx):
    rng = ctx.rng
    quick = ctx.tier == 'quick'
    for K in ([1, 2, 3, 5] if quick else [1, 2, 3, 4, 5, 8, 12]):
        for r in range(1 if quick else 3):
            b = util.uneven_boundaries(rng, K).tolist()
            x = util.small_rationals(rng, (K,)).tolist(); v = util.small_rationals(rng, (K,)).tolist()
            w = util.small_rationals(rng, (max(K - 1, 0),)).tolist(); dw = util.small_rationals(rng, (max(K - 1, 0),)).tolist()
            yield 'jvp_sigma', {'b': b, 'x': x, 'v': v, 'w': w, 'dw': dw}
    # level sets that are nearly equidistant, end only close to 0 / 1, or have extremely thin layers (dual-number model, exact)
    special = [[round(k / 7, 7) for k in range(8)], [5e-9, 0.25, 0.625, 1.000005], [0.0, 2.0 ** -30, 0.5, 0.5 + 2.0 ** -25, 1.0],
               [0.0, 0.3125, 0.999998]]
    for b in (special if not quick else special[:3]):
        K = len(b) - 1
        x = util.small_rationals(rng, (K,)).tolist(); v = util.small_rationals(rng, (K,)).tolist()
        w = util.small_rationals(rng, (K - 1,)).tolist(); dw = util.small_rationals(rng, (K - 1,)).tolist()
        yield 'jvp_sigma', {'b': b, 'x': x, 'v': v, 'w': w, 'dw': dw}
    for K in ([1, 2, 3, 5] if quick else [1, 2, 3, 4, 6, 8]):
        b = util.uneven_boundaries(rng, K).tolist()
        arr = lambda: util.small_rationals(rng, (K,)).tolist()
        tref = (250.0 + rng.integers(-80, 81, size=K) / 4.0).tolist()
        if K >= 3 and rng.integers(0, 2): tref[-1] = tref[0]
        yield 'jvp_primeq', {'b': b, 'tref': tref, 'T': arr(), 'g': arr(), 'vg': arr(), 'dT': arr(), 'dg': arr(), 'dvg': arr(),
                              'div': arr(), 'ddiv': arr()}
    # differentiable entry points of the implementation
    ents = [('grid_ops', {}), ('filters', {}), ('interp', {})]
    kinds = ['dry', 'moist'] if quick else ['dry', 'time', 'moist', 'cloud']
    for kind in kinds:
        ents.append(('pe_terms', {'kind': kind}))
    # states exactly at rest (zero wind): derivative singularities (sqrt/norm at 0, kinks at 0) only show here
    ents.append(('pe_terms', {'kind': 'dry', 'rest': True}))
    ents.append(('pe_terms', {'kind': 'dry', 'rest': True, 'upwind': True}))
    ents.append(('pe_terms', {'kind': 'dry', 'upwind': True}))
    ents.append(('sw_terms', {'rest_layer': True}))
    # non-default options and layouts; coefficients up to the highest retained (unclipped) wavenumber
    ents.append(('pe_terms', {'kind': 'moist', 'matmul': 'sparse'}))
    ents.append(('pe_terms', {'kind': 'dry', 'impl': 'fast', 'inv_methods': True}))
    ents.append(('pe_terms', {'kind': 'dry', 'degree': 3}))
    ents.append(('pe_step', {'kind': 'dry', 'integrator': 'crank_nicolson_rk2', 'filters': [], 'nsteps': 1, 'dt': -0.02}))
    # moist equations linearised at a state with identically zero humidity, humidity in the tangent
    ents.append(('pe_terms', {'kind': 'moist', 'dry_air': True}))
    # digital filter initialisation: a multi-step entry point evaluated several times in one process
    ents.append(('dfi', {'kind': 'sw'}))
    if not quick: ents.append(('dfi', {'kind': 'dry'})); ents.append(('dfi', {'kind': 'time'}))
    ents.append(('pe_step', {'kind': 'time', 'integrator': 'crank_nicolson_rk2', 'filters': [], 'nsteps': 2}))
    ents.append(('pe_terms', {'kind': 'time'}))
    ents.append(('sw_step', {'integrator': 'backward_forward_euler', 'rest_layer': True}))
    steps = ([('dry', 'imex_rk_sil3', ['exponential']), ('moist', 'crank_nicolson_rk3', []), ('dry', 'backward_forward_euler', ['diffusion'])]
             if quick else [(k, i, f) for k in ['dry', 'moist'] for i in dyn.INTEGRATORS for f in ([], ['exponential', 'diffusion'])])
    for kind, integ, filt in steps:
        ents.append(('pe_step', {'kind': kind, 'integrator': integ, 'filters': filt, 'nsteps': 1 if quick else 2}))
    ents.append(('sw_terms', {}))
    for integ in (['crank_nicolson_rk2'] if quick else list(dyn.INTEGRATORS)):
        ents.append(('sw_step', {'integrator': integ}))
    ents.append(('held_suarez', {}))
    for name, a in ents:
        a = dict(a); a['seed'] = int(rng.integers(0, 2 ** 31))
        yield name, a
    lens = [(6, [2, 3]), (8, [2, 2, 2]), (4, [4]), (6, [6, 1]), (12, [3, 2, 2])] if quick else \
           [(n, list(f)) for n in (4, 6, 8, 12, 16) for f in _factorizations(n)]
    for n, f in lens:
        yield 'checkpoint', {'length': n, 'nested': f, 'seed': int(rng.integers(0, 2 ** 31))}
    # dual-number model of the nodal column algebra / transforms / operators / filters vs jax.jvp, and the
    # explicit transposes (Thm/AdjointOps.v) vs jax.vjp / jax.linear_transpose of the real functions
    nod = [('dry', 3, 1, 0), ('moist', 3, 1, 0), ('cloud', 2, 1, 1), ('dry', 2, 0, 0)] if quick else \
          [(k, K, va, sp) for k in ('dry', 'moist', 'cloud') for K in (1, 2, 3, 5) for va, sp in ((1, 0), (0, 1))]
    for kind, K, va, sp in nod:
        tref = (250.0 + rng.integers(-80, 81, size=K) / 4.0).tolist()
        if K >= 2 and kind == 'dry' and not va: tref = [tref[0]] * K        # uniform reference: the np.unique branch
        yield 'jvp_nodal', {'kind': kind, 'b': util.uneven_boundaries(rng, K).tolist(), 'tref': tref, 'va': va, 'sparse': sp,
                            'nodes': 5 if quick else 12, 'seed': int(rng.integers(0, 2 ** 31))}
    for M, L, I, Jn in ([(2, 3, 4, 3), (3, 4, 8, 4)] if quick else [(2, 3, 4, 3), (3, 4, 8, 4), (4, 5, 12, 6), (3, 5, 9, 5)]):
        yield 'jvp_sht', {'M': M, 'L': L, 'I': I, 'J': Jn, 'seed': int(rng.integers(0, 2 ** 31))}
    for impl in ('real', 'fast'):
        yield 'jvp_deriv', {'impl': impl, 'M': 3, 'L': 4, 'I': 8, 'J': 4, 'seed': int(rng.integers(0, 2 ** 31))}
    if not quick:
        yield 'jvp_deriv', {'impl': 'fast', 'M': 4, 'L': 6, 'I': 12, 'J': 8, 'bsm': 4, 'seed': int(rng.integers(0, 2 ** 31))}
    yield 'jvp_filter', {'seed': int(rng.integers(0, 2 ** 31))}


def _factorizations(n, minf=1):
    out = [[n]]
    for a in range(2, n):
        if n % a == 0:
            for rest in _factorizations(n // a):
                out.append([a] + rest)
    return out[:12]


# ---------------------------------------------------------------------------
def r_jvp_sigma(ctx, a):
    m = dyn.mods(); jax = m['jax']; jnp = m['jnp']; sc = m['sc']
    from dinosaur import primitive_equations as pe
    b = np.asarray(a['b']); K = len(b) - 1
    c = sc.SigmaCoordinates(b)
    x = np.asarray(a['x'], dtype=np.float64).reshape(K); v = np.asarray(a['v'], dtype=np.float64).reshape(K)
    w = np.asarray(a['w'], dtype=np.float64).reshape(max(K - 1, 0)); dw = np.asarray(a['dw'], dtype=np.float64).reshape(max(K - 1, 0))
    c2cmin = np.abs(c.center_to_center).min() if K > 1 else 1.0
    def cmp(name, f, primals, tangents, cmd, ints, arrs, scale):
        p, t = jax.jvp(f, tuple(jnp.asarray(q) for q in primals), tuple(jnp.asarray(q) for q in tangents))
        mo = ctx.model.call(cmd, ints, arrs)
        ctx.corr(name + ' (primal, tangent) vs dual-number model', np.concatenate([np.ravel(p), np.ravel(t)]), mo, scale=scale)
        ctx.oracle('derivative finite: ' + name, bool(np.all(np.isfinite(np.asarray(t)))))
    sx = float(np.abs(x).sum() + np.abs(v).sum()) + 1e-300
    for dot, down in itertools.product((1, 0), (1, 0)):
        cmp(f'cumulative_sigma_integral dot={dot} down={down}',
            lambda q: sc.cumulative_sigma_integral(q, c, axis=0, downward=bool(down), cumsum_method='dot' if dot else 'jax'),
            (x,), (v,), 0, [K, dot, down], [b, x, v], sx)
    ls = np.log(c.centers)
    for dot, down in itertools.product((1, 0), (1, 0)):
        cmp(f'cumulative_log_sigma_integral dot={dot} down={down}',
            lambda q: sc.cumulative_log_sigma_integral(q, c, axis=0, downward=bool(down), cumsum_method='dot' if dot else 'jax'),
            (x,), (v,), 3, [K, dot, down], [ls, x, v], sx * max(1.0, float(np.abs(ls).max())))
    cmp('centered_difference', lambda q: sc.centered_difference(q, c, axis=0), (x,), (v,), 2, [K], [b, x, v], sx / c2cmin)
    sw = float((np.abs(w).max() if w.size else 0) + (np.abs(dw).max() if w.size else 0) + 1) * float(np.abs(x).max() + np.abs(v).max() + 1) / c2cmin
    cmp('centered_vertical_advection', lambda ww, q: sc.centered_vertical_advection(ww, q, c, axis=0), (w, x), (dw, v),
        1, [K], [b, w, x, dw, v], sw)
    if not np.any(w == 0):
        cmp('upwind_vertical_advection', lambda ww, q: sc.upwind_vertical_advection(ww, q, c, axis=0), (w, x), (dw, v),
            5, [K], [b, w, x, dw, v], sw)
    T = x.reshape(K, 1, 1) + 250.0; dT = v.reshape(K, 1, 1)
    for sparse in (0, 1):
        cmp(f'get_geopotential_diff sparse={sparse}',
            lambda q: pe.get_geopotential_diff(q, c, 287.0, method='sparse' if sparse else 'dense'), (T,), (dT,),
            4, [K, sparse], [ls, T.ravel(), dT.ravel(), [287.0]], 287.0 * float(np.abs(ls).max()) * float(np.abs(T).sum() + np.abs(dT).sum()))


def r_jvp_primeq(ctx, a):
    """jax.jvp of the implementation's column operators of the primitive equations vs the dual-number
    run of Model/PrimEq.v / Model/Implicit.v."""
    m = dyn.mods(); jax = m['jax']; jnp = m['jnp']; sc = m['sc']; pe = m['pe']
    b = np.asarray(a['b']); K = len(b) - 1
    g = dyn.grid(M=2, L=3, I=4, J=3)
    c = dyn.coords(g, b); specs = dyn.pe_specs()
    tref = np.asarray(a['tref'], dtype=np.float64)
    eq = dyn.pe_equation('dry', c, specs, tref)
    ls = np.log(c.vertical.centers)
    col = lambda v: jnp.asarray(np.asarray(v, dtype=np.float64).reshape(K, 1, 1))
    T, gterm, vg, dT, dg, dvg = (np.asarray(a[k], dtype=np.float64) for k in ('T', 'g', 'vg', 'dT', 'dg', 'dvg'))
    p, t = jax.jvp(lambda x, y, z: eq._t_omega_over_sigma_sp(x, y, z), (col(T), col(gterm), col(vg)), (col(dT), col(dg), col(dvg)))
    mo = ctx.model.call(6, [K], [ls, b, tref, [specs.R, specs.kappa], T, gterm, vg, dT, dg, dvg])
    th = float(np.min(np.diff(b)))
    scale = float((np.abs(T).max() + np.abs(dT).max() + 1) * (np.abs(vg).max() + np.abs(dvg).max()
                  + 2 * np.abs(ls).max() * (np.abs(gterm).sum() + np.abs(dg).sum()) / th) + 1e-300)
    ctx.corr('_t_omega_over_sigma_sp (primal, tangent) vs dual-number model', np.concatenate([np.ravel(p), np.ravel(t)]), mo, scale=scale)
    dv, ddv = np.asarray(a['div'], dtype=np.float64), np.asarray(a['ddiv'], dtype=np.float64)
    H = np.abs(pe.get_temperature_implicit_weights(c.vertical, tref, specs.kappa)).max() + 1e-300
    for sparse in (0, 1):
        p, t = jax.jvp(lambda x: pe.get_temperature_implicit(x, c.vertical, tref, specs.kappa, method='sparse' if sparse else 'dense'),
                       (col(dv),), (col(ddv),))
        mo = ctx.model.call(7, [K, sparse], [ls, b, tref, [specs.R, specs.kappa], dv, ddv])
        ctx.corr(f'get_temperature_implicit sparse={sparse} (primal, tangent) vs dual-number model',
                 np.concatenate([np.ravel(p), np.ravel(t)]), mo, scale=float(H * K * (np.abs(dv).sum() + np.abs(ddv).sum()) / th + 1e-300))
        ctx.oracle(f'derivative finite: get_temperature_implicit sparse={sparse}', bool(np.all(np.isfinite(np.asarray(t)))))


# ---------------------------------------------------------------------------
def _rand_like(rng, tree, amp=1.0, admissible=None):
    """Random tangent/cotangent with the structure of `tree`; `admissible(leaf_array)` may project."""
    m = dyn.mods(); jax = m['jax']; jnp = m['jnp']
    def f(x):
        x = np.asarray(x, dtype=np.float64)
        r = rng.integers(-8, 9, size=x.shape).astype(np.float64) / 8 * amp
        if admissible is not None and x.ndim >= 2: r = admissible(r)
        return jnp.asarray(r) if x.ndim else jnp.asarray(float(r))
    return jax.tree_util.tree_map(f, tree)


def _ad_oracles(ctx, name, f, x, v, w=None, h=1e-3, fd_tol=1e-7, adj_tol=1e-10, poly=False):
    """The property's clauses for one differentiable entry point f at primal x, tangent v, cotangent w."""
    m = dyn.mods(); jax = m['jax']; jnp = m['jnp']
    tm = jax.tree_util.tree_map
    fj = jax.jit(f)
    y, jv = jax.jvp(fj, (x,), (v,))
    ctx.oracle(f'{name}: forward-mode derivative finite', dyn.tree_all_finite(jv) and dyn.tree_all_finite(y))
    if w is None:
        w = _rand_like(ctx._c08_rng, y)
    _, vjp = jax.vjp(fj, x)
    (jtw,) = vjp(w)
    ctx.oracle(f'{name}: reverse-mode derivative finite', dyn.tree_all_finite(jtw))
    lhs = dyn.tree_vdot(jv, w); rhs = dyn.tree_vdot(v, jtw)
    sc = sum(float(np.sum(np.abs(np.asarray(a) * np.asarray(b)))) for a, b in zip(dyn.tree_leaves(jv), dyn.tree_leaves(w))) + \
         sum(float(np.sum(np.abs(np.asarray(a) * np.asarray(b)))) for a, b in zip(dyn.tree_leaves(v), dyn.tree_leaves(jtw))) + 1e-300
    ctx.oracle(f'{name}: <J v, w> = <v, J^T w>', abs(lhs - rhs) <= adj_tol * sc,
               {'lhs': lhs, 'rhs': rhs, 'scale': sc})
    # central differences with one Richardson step
    def D(hh):
        yp = fj(tm(lambda a, b: a + hh * b, x, v)); ym = fj(tm(lambda a, b: a - hh * b, x, v))
        return tm(lambda p, q: (np.asarray(p, dtype=np.float64) - np.asarray(q, dtype=np.float64)) / (2 * hh), yp, ym)
    d1 = D(h); d2 = D(h / 2)
    rich = tm(lambda a, b: (4 * b - a) / 3, d1, d2)
    err = max(float(np.max(np.abs(np.asarray(r) - np.asarray(j, dtype=np.float64)))) if np.size(r) else 0.0
              for r, j in zip(dyn.tree_leaves(rich), dyn.tree_leaves(jv)))
    scale = max(dyn.tree_maxabs(jv), dyn.tree_maxabs(y) * 1e-3, 1e-300)
    ctx.oracle(f'{name}: jvp = central finite difference (Richardson)', err <= fd_tol * scale + 1e-9 * dyn.tree_maxabs(y) / h,
               {'err': err, 'scale': scale})


def _seed(ctx, a):
    ctx._c08_rng = np.random.Generator(np.random.PCG64(a['seed']))
    return ctx._c08_rng


def r_grid_ops(ctx, a):
    rng = _seed(ctx, a); m = dyn.mods(); jnp = m['jnp']
    from dinosaur import spherical_harmonic as sh
    for impl in ('real', 'fast'):
        g = dyn.grid(M=4, L=5, I=13, J=7, impl=impl)
        x = jnp.asarray(dyn.modal_field(rng, g, (2,), degree=3)); v = jnp.asarray(dyn.modal_field(rng, g, (2,), degree=3))
        for nm in ('to_nodal', 'laplacian', 'inverse_laplacian', 'd_dlon', 'cos_lat_d_dlat', 'sec_lat_d_dlat_cos2', 'clip_wavenumbers'):
            _ad_oracles(ctx, f'Grid.{nm}[{impl}]', getattr(g, nm), x, v, poly=True)
        _ad_oracles(ctx, f'Grid.cos_lat_grad[{impl}]', lambda q: g.cos_lat_grad(q), x, v)
        _ad_oracles(ctx, f'Grid.div_cos_lat[{impl}]', lambda q: g.div_cos_lat((q, 2 * q)), x, v)
        _ad_oracles(ctx, f'Grid.curl_cos_lat[{impl}]', lambda q: g.curl_cos_lat((q, -q)), x, v)
        z = jnp.asarray(rng.integers(-8, 9, size=(2,) + tuple(g.nodal_shape)).astype(np.float64) / 8)
        dz = jnp.asarray(rng.integers(-8, 9, size=(2,) + tuple(g.nodal_shape)).astype(np.float64) / 8)
        _ad_oracles(ctx, f'Grid.to_modal[{impl}]', g.to_modal, z, dz)
        _ad_oracles(ctx, f'vor_div_to_uv_nodal[{impl}]', lambda q: sh.vor_div_to_uv_nodal(g, q, 0.5 * q), x, v)
        _ad_oracles(ctx, f'uv_nodal_to_vor_div_modal[{impl}]', lambda q: sh.uv_nodal_to_vor_div_modal(g, q, -q), z, dz)


def r_filters(ctx, a):
    rng = _seed(ctx, a); m = dyn.mods(); jnp = m['jnp']; ti = m['ti']; filtering = m['filtering']
    g = dyn.grid(M=4, L=5, I=13, J=7)
    x = {'u': jnp.asarray(dyn.modal_field(rng, g, (2,), 3)), 't': jnp.asarray(0.5)}
    v = {'u': jnp.asarray(dyn.modal_field(rng, g, (2,), 3)), 't': jnp.asarray(1.0)}
    _ad_oracles(ctx, 'exponential_filter', filtering.exponential_filter(g, 16, 2), x, v)
    _ad_oracles(ctx, 'horizontal_diffusion_filter', filtering.horizontal_diffusion_filter(g, 0.01, 2), x, v)
    f = ti.exponential_step_filter(g, 0.1, tau=1.0, order=3)
    _ad_oracles(ctx, 'exponential_step_filter', lambda q: f(q, q), x, v)
    f2 = ti.horizontal_diffusion_step_filter(g, 0.1, tau=1.0, order=1)
    _ad_oracles(ctx, 'horizontal_diffusion_step_filter', lambda q: f2(q, q), x, v)


def r_interp(ctx, a):
    rng = _seed(ctx, a); m = dyn.mods(); jnp = m['jnp']
    from dinosaur import vertical_interpolation as vi
    xp = np.cumsum(rng.integers(1, 5, size=6)).astype(np.float64)
    fp = jnp.asarray(rng.integers(-8, 9, size=6).astype(np.float64) / 4); dfp = jnp.asarray(rng.integers(-8, 9, size=6).astype(np.float64) / 4)
    q = jnp.asarray(np.array([xp[0] - 0.7, xp[1] + 0.3, xp[2] + 0.45, xp[4] + 0.2, xp[-1] + 0.9]))   # away from nodes
    dq = jnp.asarray(rng.integers(-8, 9, size=5).astype(np.float64) / 8)
    for nm, fn in (('interp', vi.interp), ('linear_interp_with_linear_extrap', vi.linear_interp_with_linear_extrap), ('_dot_interp', vi._dot_interp)):
        _ad_oracles(ctx, f'{nm} wrt data', lambda d: jnp.stack([fn(t, jnp.asarray(xp), d) for t in q]), fp, dfp)
        _ad_oracles(ctx, f'{nm} wrt query', lambda t: jnp.stack([fn(t[i], jnp.asarray(xp), fp) for i in range(5)]), q, dq, h=1e-4)


def _pe_setup(rng, kind, K=3, upwind=False, matmul=None, impl='real', degree=2):
    g = dyn.grid(M=4, L=5, I=13, J=7, impl=impl) if impl == 'real' else dyn.grid(M=4, L=5, I=13, J=7, impl='fast', base_shape_multiple=4)
    c = dyn.coords(g, util.uneven_boundaries(rng, K))
    specs = dyn.pe_specs()
    tref = 250.0 + rng.integers(-20, 21, size=K).astype(np.float64)
    oro = dyn.modal_field(rng, g, (), 2, amp=0.01)
    kw = {}
    if upwind:
        from dinosaur import sigma_coordinates as sc
        kw['vertical_advection'] = sc.upwind_vertical_advection
    if matmul:
        kw['vertical_matmul_method'] = matmul
    if oro.shape != tuple(g.modal_shape):          # padded layout
        oro = np.pad(oro, [(0, g.modal_shape[0] - oro.shape[0]), (0, g.modal_shape[1] - oro.shape[1])])
    eq = dyn.pe_equation(kind, c, specs, tref, oro, **kw)
    admissible = lambda r: r * (np.asarray(g.mask) & (g.modal_mesh[1] <= 2))
    def make(with_mean=True):
        st = dyn.pe_state(rng, c, degree, dyn.PE_TRACERS[kind], with_time=(kind != 'dry'))
        return st
    return g, c, eq, make


def _to_jnp(tree, clock=None):
    m = dyn.mods()
    t = m['jax'].tree_util.tree_map(lambda q: m['jnp'].asarray(q, dtype=np.float64), tree)
    if clock is not None and getattr(t, 'sim_time', None) is not None:
        # the clock is a differentiable leaf of the state: non-zero primal value and non-zero tangent component
        t = t.replace(sim_time=m['jnp'].asarray(clock, dtype=np.float64))
    return t


def _at_rest(st):
    m = dyn.mods(); jnp = m['jnp']
    return st.replace(vorticity=jnp.zeros_like(st.vorticity), divergence=jnp.zeros_like(st.divergence))


def r_pe_terms(ctx, a):
    rng = _seed(ctx, a)
    g, c, eq, make = _pe_setup(rng, a['kind'], upwind=a.get('upwind', False), matmul=a.get('matmul'), impl=a.get('impl', 'real'),
                               degree=a.get('degree', 2))
    x = _to_jnp(make(), 0.375); v = _to_jnp(make(), 0.75)
    tag = a['kind'] + ('[upwind]' if a.get('upwind') else '') + ('[%s]' % a['matmul'] if a.get('matmul') else '') + \
        ('[fast,padded]' if a.get('impl') == 'fast' else '') + ('[degree %d]' % a['degree'] if a.get('degree') else '')
    if a.get('rest'):
        x = _at_rest(x); tag += '[at rest]'
    if a.get('dry_air'):
        m_ = dyn.mods(); x = x.replace(tracers={k: m_['jnp'].zeros_like(q) for k, q in x.tracers.items()}); tag += '[q = 0]'
        # a tangent purely in humidity, and the generic tangent
        vq = v.replace(vorticity=0 * v.vorticity, divergence=0 * v.divergence, temperature_variation=0 * v.temperature_variation,
                       log_surface_pressure=0 * v.log_surface_pressure, sim_time=0.0 * v.sim_time)
        _ad_oracles(ctx, f'{tag}.explicit_terms (humidity tangent)', eq.explicit_terms, x, vq, fd_tol=1e-6)
    # upwind advection at rest sits exactly on the kink of max(w,0)/min(w,0): the central difference
    # there equals JAX's symmetric derivative only up to O(h) (one-sided second-order terms), so the
    # tolerance is relative 2e-3 with h = 1e-4 (a wrong branch choice gives O(1) relative errors)
    kink = bool(a.get('upwind') and a.get('rest'))
    if a.get('upwind') and not kink:
        # a generic state can also have a nodal sigma_dot that changes sign between x - h v and x + h v: the central
        # difference then straddles the same kink and is only O(h)-accurate there. Seed-dependent (about one case in
        # five); detected exactly, and then the documented kink tolerance applies instead of the smooth one
        # (false alarm seen once when the case seeds shifted: err 9.4e-4 of the scale; DESIGN 9.7).
        m_ = dyn.mods(); tm_ = m_['jax'].tree_util.tree_map
        sd = [np.asarray(m_['pe'].compute_diagnostic_state(tm_(lambda p_, q_: p_ + t_ * q_, x, v), c).sigma_dot_full) for t_ in (-1e-3, 0.0, 1e-3)]
        if bool(np.any((np.sign(sd[0]) != np.sign(sd[2])) | (np.sign(sd[0]) != np.sign(sd[1])))):
            kink = True; ctx.count('pe_terms:upwind state straddles the kink (kink tolerance)')
        else:
            ctx.count('pe_terms:upwind state away from the kink (smooth tolerance)')
    _ad_oracles(ctx, f'{tag}.explicit_terms', eq.explicit_terms, x, v, h=1e-4 if (kink and a.get('rest')) else 1e-3,
                fd_tol=2e-3 if kink else (1e-5 if a.get('upwind') else 1e-6))
    if a.get('rest') or a.get('upwind'):
        step = dyn.integrator('backward_forward_euler', eq, 0.02)
        _ad_oracles(ctx, f'{tag} step backward_forward_euler', step, x, v, h=1e-4 if (kink and a.get('rest')) else 1e-3,
                    fd_tol=2e-3 if kink else 1e-5)
        return
    _ad_oracles(ctx, f'{tag}.implicit_terms', eq.implicit_terms, x, v)
    for eta in (0.05, -0.05):
        _ad_oracles(ctx, f'{tag}.implicit_inverse eta={eta}', lambda s: eq.implicit_inverse(s, eta), x, v)
    if a.get('inv_methods') and a['kind'] == 'dry':
        for meth in ('stacked', 'blockwise'):
            _ad_oracles(ctx, f'{tag}.implicit_inverse method={meth}', lambda s: eq.implicit_inverse(s, 0.05, method=meth), x, v)


def r_pe_step(ctx, a):
    rng = _seed(ctx, a); m = dyn.mods(); ti = m['ti']
    g, c, eq, make = _pe_setup(rng, a['kind'])
    dt = a.get('dt', 0.02)
    step = dyn.integrator(a['integrator'], eq, dt)
    step = ti.step_with_filters(step, dyn.step_filters(a['filters'], g, abs(dt)))
    if a['nsteps'] > 1: step = ti.repeated(step, a['nsteps'])
    x = _to_jnp(make(), 0.375); v = _to_jnp(make(), 0.75)
    _ad_oracles(ctx, f'{a["kind"]} step {a["integrator"]} filters={a["filters"]} n={a["nsteps"]}', step, x, v, fd_tol=1e-6)


def _sw_setup(rng):
    g = dyn.grid(M=4, L=5, I=13, J=7)
    c = dyn.layer_coords(g, 2)
    eq = dyn.sw_equation(c, [1.0, 1.25], [1.0, 0.5], dyn.modal_field(rng, g, (), 2, amp=0.05))
    return g, c, eq


def _sw_rest_layer(st):
    # lower layer exactly at rest
    return st.replace(vorticity=st.vorticity.at[1].set(0.0), divergence=st.divergence.at[1].set(0.0))


def r_sw_terms(ctx, a):
    rng = _seed(ctx, a); g, c, eq = _sw_setup(rng)
    x = _to_jnp(dyn.sw_state(rng, c)); v = _to_jnp(dyn.sw_state(rng, c))
    if a.get('rest_layer'): x = _sw_rest_layer(x)
    _ad_oracles(ctx, 'shallow_water.explicit_terms', eq.explicit_terms, x, v)
    _ad_oracles(ctx, 'shallow_water.implicit_terms', eq.implicit_terms, x, v)
    _ad_oracles(ctx, 'shallow_water.implicit_inverse', lambda s: eq.implicit_inverse(s, 0.1), x, v)


def r_sw_step(ctx, a):
    rng = _seed(ctx, a); g, c, eq = _sw_setup(rng)
    step = dyn.integrator(a['integrator'], eq, 0.05)
    x = _to_jnp(dyn.sw_state(rng, c)); v = _to_jnp(dyn.sw_state(rng, c))
    if a.get('rest_layer'): x = _sw_rest_layer(x)
    _ad_oracles(ctx, f'shallow water step {a["integrator"]}', step, x, v, fd_tol=1e-6)


def r_dfi(ctx, a):
    """digital_filter_initialization: derivative clauses, and the function must be the same function each
    time it is evaluated / traced in one process (jvp, vjp and the finite differences all trace it again)."""
    rng = _seed(ctx, a); m = dyn.mods(); ti = m['ti']
    if a['kind'] == 'sw':
        g, c, eq = _sw_setup(rng); x = _to_jnp(dyn.sw_state(rng, c)); v = _to_jnp(dyn.sw_state(rng, c))
    else:
        g, c, eq, make = _pe_setup(rng, a['kind']); x = _to_jnp(make(), 0.375); v = _to_jnp(make(), 0.75)
    dt = 0.02
    f = ti.digital_filter_initialization(eq, ti.imex_rk_sil3, dyn.step_filters(['exponential'], g, dt), time_span=8 * dt, cutoff_period=8 * dt, dt=dt)
    y1 = f(x); y2 = f(x); y3 = f(x)
    sc = max(dyn.tree_maxabs(y1), 1e-300)
    for u, w in zip(dyn.tree_leaves(y2) + dyn.tree_leaves(y3), dyn.tree_leaves(y1) + dyn.tree_leaves(y1)):
        ctx.oracle_close('digital_filter_initialization returns the same value on repeated evaluation', u, w, scale=sc, tol_rel=1e-13)
    _ad_oracles(ctx, f'digital_filter_initialization[{a["kind"]}]', f, x, v, fd_tol=1e-6)
    f2 = ti.digital_filter_initialization(eq, ti.imex_rk_sil3, dyn.step_filters(['exponential'], g, dt), time_span=8 * dt, cutoff_period=8 * dt, dt=dt)
    for u, w in zip(dyn.tree_leaves(f2(x)), dyn.tree_leaves(y1)):
        ctx.oracle_close('a second filter built with the same parameters equals the first', u, w, scale=sc, tol_rel=1e-13)


def r_held_suarez(ctx, a):
    rng = _seed(ctx, a)
    from dinosaur import held_suarez
    g = dyn.grid(M=4, L=5, I=13, J=7)
    c = dyn.coords(g, [0, 0.3, 0.6, 0.85, 1.0]); specs = dyn.pe_specs()
    tref = np.full(4, 260.0)
    hs = held_suarez.HeldSuarezForcing(c, specs, tref)
    lnps0 = float(np.log(specs.nondimensionalize(1e5 * dyn.mods()['scales'].units.pascal))) * 3.5449077
    x = _to_jnp(dyn.pe_state(rng, c, 2, lnps0=lnps0)); v = _to_jnp(dyn.pe_state(rng, c, 2))
    _ad_oracles(ctx, 'HeldSuarezForcing.explicit_terms', hs.explicit_terms, x, v, fd_tol=1e-6)


def r_checkpoint(ctx, a):
    rng = _seed(ctx, a); m = dyn.mods(); jax = m['jax']; jnp = m['jnp']; ti = m['ti']
    n = a['length']
    xs = jnp.asarray(rng.integers(-8, 9, size=(n, 3)).astype(np.float64) / 8)
    init = jnp.asarray(rng.integers(-8, 9, size=(3,)).astype(np.float64) / 8)
    A = jnp.asarray(rng.integers(-4, 5, size=(3, 3)).astype(np.float64) / 8)
    def body(cy, x):
        new = jnp.tanh(A @ cy) + x * cy
        return new, new * new
    def loss_nested(init, xs):
        cy, ys = ti.nested_checkpoint_scan(body, init, xs, length=n, nested_lengths=a['nested'])
        return jnp.sum(cy) + jnp.sum(ys * jnp.arange(1, n + 1)[:, None])
    def loss_flat(init, xs):
        cy, ys = jax.lax.scan(body, init, xs, length=n)
        return jnp.sum(cy) + jnp.sum(ys * jnp.arange(1, n + 1)[:, None])
    def loss_nock(init, xs):
        cy, ys = ti.nested_checkpoint_scan(body, init, xs, length=n, nested_lengths=a['nested'], checkpoint_fn=lambda f: f)
        return jnp.sum(cy) + jnp.sum(ys * jnp.arange(1, n + 1)[:, None])
    g1 = jax.grad(loss_nested, argnums=(0, 1))(init, xs); g2 = jax.grad(loss_flat, argnums=(0, 1))(init, xs)
    g3 = jax.grad(loss_nock, argnums=(0, 1))(init, xs)
    sc = max(dyn.tree_maxabs(g2), 1e-300)
    for u, v2 in zip(g1 + g3, g2 + g2):
        ctx.oracle_close('gradient of nested (checkpointed) scan = gradient of flat scan', u, v2, scale=sc, tol_rel=1e-11)
    ctx.oracle_close('value of nested scan = flat scan', loss_nested(init, xs), loss_flat(init, xs), tol_rel=1e-12)
    # a non-default scan function must be used at EVERY nesting level: with a reversed scan the nested scan is the
    # flat reversed scan (blocks in reverse order, elements of a block in reverse order), for values and gradients
    import functools
    rev = functools.partial(jax.lax.scan, reverse=True)
    wts = jnp.arange(1, n + 1)[:, None]
    def loss_nested_rev(init, xs):
        cy, ys = ti.nested_checkpoint_scan(body, init, xs, length=n, nested_lengths=a['nested'], scan_fn=rev)
        return jnp.sum(cy) + jnp.sum(ys * wts)
    def loss_flat_rev(init, xs):
        cy, ys = jax.lax.scan(body, init, xs, length=n, reverse=True)
        return jnp.sum(cy) + jnp.sum(ys * wts)
    g4 = jax.grad(loss_nested_rev, argnums=(0, 1))(init, xs); g5 = jax.grad(loss_flat_rev, argnums=(0, 1))(init, xs)
    sc5 = max(dyn.tree_maxabs(g5), 1e-300)
    for u, v2 in zip(g4, g5):
        ctx.oracle_close('gradient of nested scan with scan_fn = reversed scan equals gradient of the flat reversed scan', u, v2, scale=sc5, tol_rel=1e-11)
    ctx.oracle_close('value of nested scan with scan_fn = reversed scan = flat reversed scan', loss_nested_rev(init, xs), loss_flat_rev(init, xs), tol_rel=1e-12)
    _, jv_n = jax.jvp(loss_nested_rev, (init, xs), (init * 0 + 1.0, xs * 0 + 0.5)); _, jv_f = jax.jvp(loss_flat_rev, (init, xs), (init * 0 + 1.0, xs * 0 + 0.5))
    ctx.oracle_close('jvp of nested scan with scan_fn = reversed scan = jvp of the flat reversed scan', jv_n, jv_f, tol_rel=1e-11)


# ---------------------------------------------------------------------------
# dual-number model / explicit transposes vs jax.jvp / jax.vjp of the real functions
# ---------------------------------------------------------------------------
QN, QC, QI = 'specific_humidity', 'specific_cloud_liquid_water_content', 'specific_cloud_ice_water_content'


def _A(*zs):
    return float(sum(np.max(np.abs(np.asarray(z, dtype=np.float64))) if np.size(z) else 0.0 for z in zs))


def r_jvp_nodal(ctx, a):
    """Every nodal array that explicit_terms hands to Grid.to_modal (recorded through a patched to_modal), as a function
    of the modal state: jax.jvp (primal, tangent) vs Model/PrimEq.v run at dual numbers on the nodal diagnostic state
    and ITS tangent (the nodal inputs are linear transforms of the state)."""
    from unittest import mock
    rng = _seed(ctx, a); m = dyn.mods(); jax = m['jax']; jnp = m['jnp']; pe = m['pe']; sh = m['sh']
    kind = a['kind']; b = np.asarray(a['b'], dtype=np.float64); K = len(b) - 1; va = int(a['va']); sparse = int(a['sparse'])
    g = dyn.grid(M=2, L=3, I=4, J=3); c = dyn.coords(g, b); specs = dyn.pe_specs()
    tref = np.asarray(a['tref'], dtype=np.float64)
    kw = {}
    if not va: kw['include_vertical_advection'] = False
    if sparse: kw['vertical_matmul_method'] = 'sparse'
    eq = dyn.pe_equation(kind, c, specs, tref, dyn.modal_field(rng, g, (), 1, amp=0.01), **kw)
    names = sorted(dyn.PE_TRACERS[kind]); wt = kind != 'dry'; moist = kind in ('moist', 'cloud')
    amp = dict(vort=0.5, div=0.25, T=4.0, lnps=0.25, tr=0.125)
    x = _to_jnp(dyn.pe_state(rng, c, 1, names, with_time=wt, amp=amp), 0.375)
    v = _to_jnp(dyn.pe_state(rng, c, 1, names, with_time=wt, amp=amp), 0.75)
    strip = (lambda s_: pe.State(s_.vorticity, s_.divergence, s_.temperature_variation, s_.log_surface_pressure, s_.tracers)) if wt else (lambda s_: s_)

    def diag(s_):
        s0 = strip(s_)
        aux = pe.compute_diagnostic_state(s0, c)
        ex = {}
        if moist:
            ex['lap'] = g.to_nodal(g.laplacian(s0.log_surface_pressure))
            ex['gq'] = g.to_nodal(g.cos_lat_grad(s0.tracers[QN], clip=False))
        return aux, ex
    (aux, ex), (daux, dex) = jax.jvp(diag, (x,), (v,))
    orig = sh.Grid.to_modal

    def rec_fn(s_):
        rec = []
        def rec_to_modal(self, z):
            rec.append(z)
            return orig(self, z)
        with mock.patch.object(sh.Grid, 'to_modal', rec_to_modal):
            eq.explicit_terms(s_)
        return tuple(rec)
    recp, rect = jax.jvp(rec_fn, (x,), (v,))
    order = ['combined_u', 'combined_v'] + (['hum_curl'] if moist else []) + ['kinetic'] \
        + (['hum_geo', 'hum_div'] if moist else []) + ['hsa_mu:T', 'hsa_mv:T']
    for n in names: order += ['hsa_mu:' + n, 'hsa_mv:' + n]
    order += ['temp_total', 'lnps'] + ['tracer_total:' + n for n in names]
    ctx.exact('number and order of to_modal calls in explicit_terms (under jax.jvp)', len(recp), len(order))
    if len(recp) != len(order): return
    N = lambda z: np.asarray(z, dtype=np.float64)
    full = lambda z: np.broadcast_to(N(z), (N(z).shape[0],) + tuple(g.nodal_shape))
    impl = {n: (full(p_), full(t_)) for n, p_, t_ in zip(order, recp, rect)}
    impl['udg'] = (N(aux.u_dot_grad_log_sp), N(daux.u_dot_grad_log_sp))
    impl['sde'] = (N(aux.sigma_dot_explicit), N(daux.sigma_dot_explicit)); impl['sdf'] = (N(aux.sigma_dot_full), N(daux.sigma_dot_full))
    ad = jax.jvp(lambda s_: eq.nodal_temperature_adiabatic_tendency(pe.compute_diagnostic_state(strip(s_), c)), (x,), (v,))
    impl['temp_adiabatic'] = (N(ad[0]), N(ad[1]))
    ctx.oracle('derivative finite: nodal terms of explicit_terms', all(bool(np.all(np.isfinite(t_))) for _, t_ in impl.values()))
    P = lambda t: (N(t[0]), N(t[1]))
    u, du = zip(*[(N(p_), N(t_)) for p_, t_ in zip(aux.cos_lat_u, daux.cos_lat_u)])
    gx, dgx = zip(*[(N(p_), N(t_)) for p_, t_ in zip(aux.cos_lat_grad_log_sp, daux.cos_lat_grad_log_sp)])
    vort, dvort = N(aux.vorticity), N(daux.vorticity); dv_, ddv = N(aux.divergence), N(daux.divergence)
    tp, dtp = N(aux.temperature_variation), N(daux.temperature_variation)
    trn = {n: (N(aux.tracers[n]), N(daux.tracers[n])) for n in names}
    sec2 = np.broadcast_to(N(g.sec2_lat), g.nodal_shape); fcor = np.broadcast_to(N(eq.coriolis_parameter), g.nodal_shape)
    ls = np.log(c.vertical.centers); th = c.vertical.layer_thickness
    consts = [specs.R, specs.kappa, specs.R_vapor, specs.Cp_vapor]
    zK = np.zeros((K,) + tuple(g.nodal_shape)); z1 = np.zeros((1,) + tuple(g.nodal_shape))
    if moist:
        lap, dlap = N(ex['lap']), N(dex['lap']); gq = [N(t) for t in ex['gq']]; dgq = [N(t) for t in dex['gq']]
        q, dq = trn[QN]
    else:
        lap = dlap = z1; gq = dgq = [zK, zK]; q = dq = zK
    qc, dqc = trn.get(QC, (zK, zK)); qi, dqi = trn.get(QI, (zK, zK))
    # magnitudes of the terms (primal + tangent), as in C04
    cmin = float(np.min(c.vertical.center_to_center)) if K > 1 else 1.0
    alpha = pe.get_sigma_ratios(c.vertical)
    S2 = _A(sec2); Au = _A(u[0], du[0]); Av = _A(u[1], du[1]); Agx = _A(gx[0], dgx[0]); Agy = _A(gx[1], dgx[1])
    U = 2 * (Au * Agx + Av * Agy) * S2; G = _A(dv_, ddv) + U; SD = 2 * G
    VT = lambda w_, x_: 4 * w_ * x_ / cmin
    GP = 2 * _A(alpha) * G / float(np.min(th)); MF = 8.0 if moist else 1.0
    TT = _A(tref) + _A(tp, dtp)
    S_ad = 2 * specs.kappa * TT * MF * (U + GP) + 1e-300
    S_vert = VT(SD, _A(tp, dtp)) + VT(SD, _A(tref)) + 1e-300
    S_tot = 2 * _A(tp, dtp) * _A(dv_, ddv) + S_vert + S_ad
    S_c = 2 * (Au + Av) * (_A(vort, dvort) + _A(fcor)) * S2 + (VT(SD, max(Au, Av)) + 3 * specs.R * _A(tp, dtp) * MF * max(Agx, Agy)) * S2 + 1e-300
    scale = {'udg': U + 1e-300, 'sde': SD + 1e-300, 'sdf': SD + 1e-300, 'temp_adiabatic': S_ad, 'lnps': U + 1e-300, 'temp_total': S_tot,
             'combined_u': S_c, 'combined_v': S_c, 'kinetic': 2 * (Au ** 2 + Av ** 2) * S2 + 1e-300,
             'hsa_mu:T': 2 * Au * _A(tp, dtp) * S2 + 1e-300, 'hsa_mv:T': 2 * Av * _A(tp, dtp) * S2 + 1e-300}
    for n in names:
        At = _A(*trn[n])
        scale['hsa_mu:' + n] = 2 * Au * At * S2 + 1e-300; scale['hsa_mv:' + n] = 2 * Av * At * S2 + 1e-300
        scale['tracer_total:' + n] = VT(SD, At) + 2 * At * _A(dv_, ddv) + 1e-300
    dR = abs(specs.R_vapor - specs.R); Agq = max(_A(gq[0], dgq[0]), _A(gq[1], dgq[1]))
    scale['hum_curl'] = _A(tref) * dR * S2 * 4 * max(Agx, Agy) * Agq + 1e-300
    scale['hum_div'] = scale['hum_curl'] + 2 * _A(q, dq) * _A(lap, dlap) * _A(tref) * dR + 1e-300
    scale['hum_geo'] = specs.R * _A(alpha) * 4 * K * _A(q, dq) * TT * abs(specs.R_vapor / specs.R - 1) + 1e-300
    nlon, nlat = g.nodal_shape
    allnodes = [(i, j) for i in range(nlon) for j in range(nlat)]
    sel = rng.choice(len(allnodes), size=min(int(a.get('nodes', 12)), len(allnodes)), replace=False)
    got = {n: [] for n in impl}; want = {n: [] for n in impl}
    ints = [K, va, sparse]

    def split(mo, sizes):
        out = []; k = 0
        for n_ in sizes:
            out.append(list(mo[k:k + 2 * n_])); k += 2 * n_
        return out
    for s_ in sel:
        i, jn = allnodes[int(s_)]
        col = lambda z: z[:, i, jn]
        base = [ls, b, tref, consts, col(u[0]), col(u[1]), col(vort), col(dv_), col(tp),
                [gx[0][0, i, jn], gx[1][0, i, jn], sec2[i, jn], fcor[i, jn], lap[0, i, jn]], col(q), col(qc), col(qi), col(gq[0]), col(gq[1]),
                col(du[0]), col(du[1]), col(dvort), col(ddv), col(dtp),
                [dgx[0][0, i, jn], dgx[1][0, i, jn], 0.0, 0.0, dlap[0, i, jn]], col(dq), col(dqc), col(dqi), col(dgq[0]), col(dgq[1])]
        out = {}
        m0 = ctx.model.call(10, ints, base)
        if m0 is None:
            ctx.corr('nodal column model (cmd 10)', [0.0], None); return
        (out['udg'], out['sde'], out['sdf'], _tv, out['temp_adiabatic'], out['lnps'], out['temp_total'], out['combined_u'],
         out['combined_v'], out['kinetic']) = split(m0, [K, K - 1, K - 1, K, K, 1, K, K, K, K])
        for n, (arr_n, darr_n) in [('T', (tp, dtp))] + [(n, trn[n]) for n in names]:
            bb = list(base); bb[10] = col(arr_n); bb[21] = col(darr_n)
            tt, out['hsa_mu:' + n], out['hsa_mv:' + n] = split(ctx.model.call(11, ints, bb), [K, K, K])
            if n != 'T': out['tracer_total:' + n] = tt
        if moist:
            (out['temp_adiabatic'], out['temp_total'], out['combined_u'], out['combined_v'], out['hum_div'], out['hum_geo'],
             out['hum_curl']) = split(ctx.model.call(12, ints, base), [K] * 7)
            if kind == 'cloud':
                out['combined_u'], out['combined_v'] = split(ctx.model.call(13, ints, base), [K, K])
        for n in impl:
            got[n] += impl[n][0][:, i, jn].tolist() + impl[n][1][:, i, jn].tolist(); want[n] += out[n]
    for n in impl:
        ctx.corr('nodal column (primal, tangent) vs dual-number model: ' + n.split(':')[0], got[n], want[n],
                 scale=scale[n if n in scale else n.split(':')[0]])
    ctx.count('jvp_nodal:%s:K%d:va%d' % (kind, K, va))


def _guarded(ctx, name, fn):
    """Run one block of comparisons; an exception of the implementation (e.g. a derivative rule that forbids forward or
    reverse mode) is a broken obligation of that block, and the remaining blocks still run."""
    import traceback
    try:
        fn()
    except Exception:
        ctx.mismatches.append(dict(ctx._where(), what=name + ': exception', detail=traceback.format_exc()[-800:]))


def r_jvp_sht(ctx, a):
    """Grid.to_nodal / to_modal (reference layout): jax.jvp vs Model/SHT.v at dual numbers with the implementation's own
    tables as constants; jax.vjp / jax.linear_transpose on basis cotangents vs the explicit transposes synthT / analysisT;
    the weighted adjointness <to_nodal x, z>_w = <x, to_modal z> on the implementation."""
    rng = _seed(ctx, a); m = dyn.mods(); jax = m['jax']; jnp = m['jnp']
    g = dyn.grid(M=a['M'], L=a['L'], I=a['I'], J=a['J'])
    bs = g.spherical_harmonics.basis
    f, p, w = (np.asarray(t, dtype=np.float64) for t in (bs.f, bs.p, bs.w))
    K, L = g.modal_shape; I, Jn = g.nodal_shape
    ints = [K, L, I, Jn]
    x = util.small_rationals(rng, (K, L)); dx = util.small_rationals(rng, (K, L))
    z = util.small_rationals(rng, (I, Jn)); dz = util.small_rationals(rng, (I, Jn))
    fs = float(np.abs(f).max() * np.abs(p).max()); ws = float(np.abs(w).max())
    tabs = [f.ravel(), p.ravel(), w]

    def fwd_nodal():
        pt = jax.jvp(g.to_nodal, (jnp.asarray(x),), (jnp.asarray(dx),))
        ctx.corr('to_nodal (primal, tangent) vs dual-number model', np.concatenate([np.ravel(pt[0]), np.ravel(pt[1])]),
                 ctx.model.call(20, ints, tabs + [x.ravel(), dx.ravel()]), scale=fs * (np.abs(x).sum() + np.abs(dx).sum()) + 1e-300)

    def fwd_modal():
        pt = jax.jvp(g.to_modal, (jnp.asarray(z),), (jnp.asarray(dz),))
        ctx.corr('to_modal (primal, tangent) vs dual-number model', np.concatenate([np.ravel(pt[0]), np.ravel(pt[1])]),
                 ctx.model.call(21, ints, tabs + [z.ravel(), dz.ravel()]), scale=fs * ws * (np.abs(z).sum() + np.abs(dz).sum()) + 1e-300)

    # reverse mode on basis cotangents (every column of the transposed Jacobian) and one dense cotangent
    def rev_nodal():
        _, vjp_syn = jax.vjp(g.to_nodal, jnp.asarray(x))
        cots = [np.eye(I * Jn)[k].reshape(I, Jn) for k in range(I * Jn)] + [z]
        got = []; want = []
        for ct in cots:
            got += np.ravel(vjp_syn(jnp.asarray(ct))[0]).tolist(); want += ctx.model.call(22, ints, tabs + [ct.ravel()])
        ctx.corr('vjp(to_nodal) on basis cotangents vs synthT (= to_modal without quadrature weights)', got, want, scale=fs * max(1.0, np.abs(z).sum()))
        ctx.oracle_close('<J v, w> = <v, J^T w> for to_nodal with J^T = vjp', float(np.sum(np.asarray(g.to_nodal(jnp.asarray(dx))) * z)),
                         float(np.sum(dx * np.asarray(vjp_syn(jnp.asarray(z))[0]))), scale=fs * np.abs(dx).sum() * np.abs(z).sum() + 1e-300, tol_rel=1e-12)

    def rev_modal(kind):
        if kind == 'linear_transpose':
            tr = jax.linear_transpose(g.to_modal, jnp.asarray(z))
        else:
            _, tr = jax.vjp(g.to_modal, jnp.asarray(z))
        cots = [np.eye(K * L)[k].reshape(K, L) for k in range(K * L)] + [x]
        got = []; want = []
        for ct in cots:
            got += np.ravel(tr(jnp.asarray(ct))[0]).tolist(); want += ctx.model.call(23, ints, tabs + [ct.ravel()])
        ctx.corr(f'{kind}(to_modal) on basis cotangents vs analysisT (= weights * to_nodal)', got, want, scale=fs * ws * max(1.0, np.abs(x).sum()))

    _guarded(ctx, 'jvp(to_nodal)', fwd_nodal); _guarded(ctx, 'jvp(to_modal)', fwd_modal)
    _guarded(ctx, 'vjp(to_nodal)', rev_nodal)
    _guarded(ctx, 'linear_transpose(to_modal)', lambda: rev_modal('linear_transpose')); _guarded(ctx, 'vjp(to_modal)', lambda: rev_modal('vjp'))
    # the theorem's statement on the implementation
    yn = np.asarray(g.to_nodal(jnp.asarray(x))); xm = np.asarray(g.to_modal(jnp.asarray(z)))
    sc = fs * ws * np.abs(x).sum() * np.abs(z).sum() + 1e-300
    ctx.oracle_close('<to_nodal x, z>_w = <x, to_modal z> (transforms mutually adjoint up to the quadrature weights)',
                     float(np.sum(w[None, :] * yn * z)), float(np.sum(x * xm)), scale=sc, tol_rel=1e-12)
    ctx.count('jvp_sht:%dx%d' % (K, L))


def r_jvp_deriv(ctx, a):
    """Grid differential operators: jax.jvp vs Model/Deriv.v at dual numbers (recurrence tables of the implementation as
    constants), jax.vjp on basis cotangents vs the explicit transposes of Thm/AdjointOps.v; table obligations of the
    corollary D1^T = -D2."""
    rng = _seed(ctx, a); m = dyn.mods(); jax = m['jax']; jnp = m['jnp']
    fast = int(a['impl'] == 'fast')
    kw = {'base_shape_multiple': a['bsm']} if a.get('bsm') else {}
    g = dyn.grid(M=a['M'], L=a['L'], I=a['I'], J=a['J'], impl=a['impl'], **kw)
    R, C = g.modal_shape
    ta, tb = (np.asarray(t, dtype=np.float64) for t in g._derivative_recurrence_weights)
    r = float(g.radius)
    mk = np.asarray(g.mask).astype(np.float64)
    x = util.small_rationals(rng, (R, C)) * mk; dx = util.small_rationals(rng, (R, C)) * mk
    y = util.small_rationals(rng, (R, C)) * mk; dy = util.small_rationals(rng, (R, C)) * mk
    cand = np.argwhere(mk > 0); i0, l0 = (int(t) for t in cand[len(cand) // 2])
    x[i0, l0] = 0.0; dx[i0, l0] = 1.0      # a primal entry that is exactly zero with a non-zero tangent (where/sign guards)
    Lm = float(a['L']) + 2; sx = float(np.abs(x).max() + np.abs(dx).max() + np.abs(y).max() + np.abs(dy).max()) + 1e-300
    ctx.table_obligation('layout_ok: modal rows odd (reference) / even (fast)', R % 2 == (0 if fast else 1), {'R': R})
    if C == a['L']:
        ctx.table_obligation('H_ab_shift: a[:, l+1] = b[:, l]', bool(np.allclose(ta[:, 1:], tb[:, :-1], rtol=0, atol=1e-15)))
        ctx.table_obligation('H_b_trunc: vacuous without padding (C = L)', True)
    ops = [(0, 'd_dlon', lambda q, s: g.d_dlon(q), 1, 0, Lm), (1, 'cos_lat_d_dlat', lambda q, s: g.cos_lat_d_dlat(q), 1, 0, Lm),
           (2, 'sec_lat_d_dlat_cos2', lambda q, s: g.sec_lat_d_dlat_cos2(q), 1, 0, Lm),
           (3, 'laplacian', lambda q, s: g.laplacian(q), 1, 0, Lm * Lm / r ** 2), (4, 'inverse_laplacian', lambda q, s: g.inverse_laplacian(q), 1, 0, r ** 2),
           (5, 'clip_wavenumbers', lambda q, s: g.clip_wavenumbers(q), 1, 1, 1.0),
           (6, 'cos_lat_grad', lambda q, s: jnp.stack(g.cos_lat_grad(q, clip=False)), 0, 0, Lm / r),
           (6, 'cos_lat_grad[clip]', lambda q, s: jnp.stack(g.cos_lat_grad(q, clip=True)), 1, 0, Lm / r),
           (7, 'div_cos_lat', lambda q, s: g.div_cos_lat((q, s), clip=False), 0, 0, 2 * Lm / r),
           (8, 'curl_cos_lat', lambda q, s: g.curl_cos_lat((q, s), clip=True), 1, 0, 2 * Lm / r)]
    for op, nm, fn, clip, n, sc in ops:
        pt = jax.jvp(fn, (jnp.asarray(x), jnp.asarray(y)), (jnp.asarray(dx), jnp.asarray(dy)))
        mo = ctx.model.call(30, [fast, a['M'], a['L'], R, C, clip, n, op], [[r], ta.ravel(), tb.ravel(), x.ravel(), y.ravel(), dx.ravel(), dy.ravel()])
        P = np.asarray(pt[0]); T = np.asarray(pt[1])
        if P.ndim == 3:   # two outputs: model prints (re0, ep0, re1, ep1)
            impl_v = np.concatenate([P[0].ravel(), T[0].ravel(), P[1].ravel(), T[1].ravel()])
        else:
            impl_v = np.concatenate([P.ravel(), T.ravel()])
        ctx.corr(f'Grid.{nm}[{a["impl"]}] (primal, tangent) vs dual-number model', impl_v, mo, scale=sc * sx)
        ctx.oracle(f'derivative finite: Grid.{nm}[{a["impl"]}]', bool(np.all(np.isfinite(T))))
    # reverse mode vs the explicit transposes, on basis cotangents inside the modal array and one dense cotangent
    idx = [int(t) for t in rng.choice(R * C, size=min(10, R * C), replace=False)]
    cots = [np.eye(R * C)[k].reshape(R, C) for k in idx] + [util.small_rationals(rng, (R, C))]
    tops = [(0, 'd_dlon', g.d_dlon, 1, Lm), (1, 'cos_lat_d_dlat', g.cos_lat_d_dlat, 1, Lm), (2, 'sec_lat_d_dlat_cos2', g.sec_lat_d_dlat_cos2, 1, Lm),
            (3, 'laplacian', g.laplacian, 1, Lm * Lm / r ** 2), (4, 'inverse_laplacian', g.inverse_laplacian, 1, r ** 2),
            (5, 'clip_wavenumbers', g.clip_wavenumbers, 1, 1.0)]
    for op, nm, fn, n, sc in tops:
        _, vjp = jax.vjp(fn, jnp.asarray(x))
        got = []; want = []
        for ct in cots:
            got += np.ravel(vjp(jnp.asarray(ct))[0]).tolist()
            want += ctx.model.call(31, [fast, a['M'], a['L'], R, C, 0, n, op], [[r], ta.ravel(), tb.ravel(), ct.ravel(), []])
        ctx.corr(f'vjp(Grid.{nm})[{a["impl"]}] on basis cotangents vs explicit transpose', got, want, scale=sc * float(np.abs(cots[-1]).max() + 1))
    _, vjp = jax.vjp(lambda q: g.cos_lat_grad(q, clip=False), jnp.asarray(x))
    got = []; want = []
    for k in range(len(cots)):
        cu, cv = cots[k], cots[(k + 3) % len(cots)]
        got += np.ravel(vjp((jnp.asarray(cu), jnp.asarray(cv)))[0]).tolist()
        want += ctx.model.call(31, [fast, a['M'], a['L'], R, C, 0, 1, 6], [[r], ta.ravel(), tb.ravel(), cu.ravel(), cv.ravel()])
    ctx.corr(f'vjp(Grid.cos_lat_grad)[{a["impl"]}] vs explicit transpose (-d_dlon u + D1^T v)/r', got, want, scale=2 * Lm / r * float(np.abs(cots[-1]).max() + 1))
    if C == a['L']:
        # <cos_lat_grad x, (u, v)> = -<x, div_cos_lat (u, v)> on the implementation (grad_div_adjoint)
        gu, gv = (np.asarray(t) for t in g.cos_lat_grad(jnp.asarray(x), clip=False))
        dv_ = np.asarray(g.div_cos_lat((jnp.asarray(y), jnp.asarray(dy)), clip=False))
        ctx.oracle_close('<cos_lat_grad x, (u, v)> = -<x, div_cos_lat (u, v)>', float(np.sum(gu * y) + np.sum(gv * dy)), float(-np.sum(x * dv_)),
                         scale=2 * Lm / r * sx * sx * R * C, tol_rel=1e-12)
    ctx.count('jvp_deriv:' + a['impl'])


def r_jvp_filter(ctx, a):
    """exponential / diffusion filters: linear and diagonal in the state.  jax.jvp vs Model/Filters.v [rescale] at dual
    numbers (attenuation table of the implementation as constant), reverse mode = the filter itself (self-adjoint)."""
    rng = _seed(ctx, a); m = dyn.mods(); jax = m['jax']; jnp = m['jnp']; filtering = m['filtering']; ti = m['ti']
    g = dyn.grid(M=4, L=5, I=13, J=7); R, C = g.modal_shape
    x = util.small_rationals(rng, (R, C)); dx = util.small_rationals(rng, (R, C)); w = util.small_rationals(rng, (R, C))
    x[0, 0] = 0.0; x[2, 3] = 0.0; dx[2, 3] = 1.0   # exactly-zero primal entries with non-zero tangent
    sf = ti.exponential_step_filter(g, 0.1, tau=1.0, order=2)
    fs = [('exponential_filter', filtering.exponential_filter(g, 16, 2, 0.3)), ('horizontal_diffusion_filter', filtering.horizontal_diffusion_filter(g, 0.01, 2)),
          ('exponential_step_filter', lambda q: sf(q, q))]
    for nm, f in fs:
        scl = np.asarray(f(jnp.ones((R, C))), dtype=np.float64)[0]
        pt = jax.jvp(f, (jnp.asarray(x),), (jnp.asarray(dx),))
        ctx.corr(f'{nm} (primal, tangent) vs dual-number model', np.concatenate([np.ravel(pt[0]), np.ravel(pt[1])]),
                 ctx.model.call(40, [R, C], [scl, x.ravel(), dx.ravel()]), scale=float(np.abs(x).max() + np.abs(dx).max()))
        _, vjp = jax.vjp(f, jnp.asarray(x))
        ctx.oracle_close(f'{nm}: reverse mode = the filter itself (diagonal, self-adjoint)', np.asarray(vjp(jnp.asarray(w))[0]), np.asarray(f(jnp.asarray(w))),
                         scale=float(np.abs(w).max()), tol_rel=1e-13)
        ctx.oracle_close(f'{nm}: forward mode of a linear map = the map applied to the tangent', np.asarray(pt[1]), np.asarray(f(jnp.asarray(dx))),
                         scale=float(np.abs(dx).max()), tol_rel=1e-13)


RUNNERS = {'jvp_sigma': r_jvp_sigma, 'jvp_primeq': r_jvp_primeq, 'grid_ops': r_grid_ops, 'filters': r_filters, 'interp': r_interp,
           'pe_terms': r_pe_terms, 'pe_step': r_pe_step, 'sw_terms': r_sw_terms, 'sw_step': r_sw_step,
           'held_suarez': r_held_suarez, 'dfi': r_dfi, 'checkpoint': r_checkpoint,
           'jvp_nodal': r_jvp_nodal, 'jvp_sht': r_jvp_sht, 'jvp_deriv': r_jvp_deriv, 'jvp_filter': r_jvp_filter}
