"""C01 - spherical-harmonic analysis inverts synthesis; discrete orthonormality.

Correspondence of Model/SHT.v (+ Model/SHTFast.v for the fast implementation)
with dinosaur.spherical_harmonic (Grid.to_nodal / to_modal / mask / integrate /
shapes / modal_axes), fed with the tables dumped from
`grid.spherical_harmonics.basis`; table obligations (the named hypotheses of the
theorems) evaluated on those tables; and the property's own clauses evaluated
directly on the implementation.  Shared helpers are also used by props/C09.py."""
import functools, itertools, math
import numpy as np
from fractions import Fraction
from harness import util

THEOREMS = ['C01_sht_gram', 'C01_sht_roundtrip', 'C01_sht_roundtrip_bandlimited', 'C01_masked_inert',
            'C01_sht_batch', 'C01_sht_integral', 'C01_fast_roundtrip', 'C01_fast_padding_inert',
            'C01_sht_integral_R', 'C01_fourier_orth_columns_R', 'C01_fourier_orth_R', 'C01_sht_roundtrip_fourier_R',
            'C01_fourier_aliasing_R', 'C01_normalization_literal', 'C01_grid_table_resolves',
            'C01_hyps_satisfiable',
            'C01_legendre_accepts', 'C01_legendre_support', 'C01_legendre_H_p_support', 'C01_rhombus_triangle_zero',
            'C01_legendre_p00', 'C01_legendre_parity', 'C01_legendre_three_term_ab', 'C01_legendre_three_term_eps',
            'C01_legendre_eps_sq', 'C01_legendre_radicands', 'C01_legendre_nonvacuous',
            'C01_legendre_poly_factor', 'C01_legendre_gram_integrand', 'C01_legendre_gram_is_moment_functional',
            'C01_legendre_orth_deg_from_functional', 'C01_legendre_orth_resolves', 'C01_legendre_poly_nonvacuous']
LEVEL = 'proof'
LEVEL_TEXT = ('machine-checked theorems (Coq) for every field, all sizes M,L,I,J (and paddings), all tables and ALL '
              'spectral inputs: analysis(synth x) is exactly the Gram operator of the tables applied to x; under the '
              'named table hypotheses it is mask*x (full and band-limited form), masked coefficients are inert, '
              'integrate(synth x) = r^2 sqrt(4 pi) x00 (R instance), same for the fast layout with arbitrary zero '
              'padding. The Fourier half of the orthonormality is PROVED over the reals for the closed form of '
              'fourier.real_basis / quadrature_nodes (every longitude offset, every M >= 1, every I >= 2M-1; exact '
              'condition: wavenumber sum of the two columns < I; aliasing counter-example for I < 2M-1), the closed '
              'form is tied to basis.f by correspondence; the Legendre / Gauss half remains a table obligation '
              're-checked numerically on the implementation\'s own tables for every explored grid. '
              'associated_legendre.py is inside the model (recurrence, index ranges, numpy index wrap, re-indexing, guard; '
              'arithmetic regenerated from the source): support (H_p_support), p00 (H_p00), parity, the triangular zero '
              'pattern and the three-term relation with eps^2 = (l^2-m^2)/(4l^2-1) are THEOREMS about the code\'s '
              'recurrence for every field, every sqrt function, all node tables and sizes n_m <= n_l')
LEVEL_NOTE = ('theorems are about the Gallina models Model/SHT.v, Model/SHTFast.v, Model/FourierR.v (all fields, sizes, '
              'tables, inputs; Fourier orthonormality over R with stdlib cos/sin/PI); NOT proved: that scipy\'s latitude '
              'nodes/weights are Gauss rules and that the Legendre recurrence is orthonormal (the polynomial-degree '
              'argument, clause (e) of the Legendre deepening, is not done) - these enter as named '
              'hypotheses (H_legendre_orth(_deg), H_p_support, H_p00, H_weights) checked as table obligations per explored '
              'configuration; H_fourier_orth and H_f0 are theorems for the closed form AND still checked numerically on '
              'basis.f; model tied to the code by differential correspondence on one-hot and dense spectra')
TECHNIQUE = 'Coq proof (generic field) + extraction-based differential correspondence + table obligations'

SPACINGS = ['gauss', 'equiangular', 'equiangular_with_poles']
_state = {}


def J_():
    if 'mods' not in _state:
        jax = util.setup_jax()
        import jax.numpy as jnp
        from dinosaur import spherical_harmonic as sh, fourier, associated_legendre as al
        _state['mods'] = (jax, jnp, sh, fourier, al)
    return _state['mods']


def trivial_mesh():
    jax, jnp, sh, fourier, al = J_()
    if 'mesh' not in _state:
        _state['mesh'] = jax.sharding.Mesh(np.array(jax.devices()[:1]).reshape(1, 1, 1), ('z', 'x', 'y'))
    return _state['mesh']


def cfg_key(c):
    return tuple(sorted((k, v) for k, v in c.items()))


def make_grid(c):
    """c: dict(M,L,I,J,spacing,offset,radius,impl['real'|'fast'],base,stacked,rev).
    rev=1 needs the sharded einsum path, reached with a trivial 1x1x1 mesh."""
    jax, jnp, sh, fourier, al = J_()
    key = cfg_key(c)
    cache = _state.setdefault('grids', {})
    if key in cache: return cache[key]
    kw = dict(longitude_wavenumbers=c['M'], total_wavenumbers=c['L'], longitude_nodes=c['I'], latitude_nodes=c['J'],
              latitude_spacing=c.get('spacing', 'gauss'), longitude_offset=float(c.get('offset', 0.0)),
              radius=float(c.get('radius', 1.0)))
    if c.get('impl', 'real') == 'real':
        g = sh.Grid(**kw)
    else:
        opts = {}
        if c.get('base') is not None: opts['base_shape_multiple'] = int(c['base'])
        if c.get('stacked') is not None: opts['stacked_fourier_transforms'] = bool(c['stacked'])
        if c.get('rev') is not None: opts['reverse_einsum_arg_order'] = bool(c['rev'])
        if c.get('prec') is not None: opts['transform_precision'] = str(c['prec'])
        cls = sh.RealSphericalHarmonicsWithZeroImag if c.get('alias') else sh.FastSphericalHarmonics
        impl = functools.partial(cls, **opts) if opts else cls
        if c.get('rev'):
            g = sh.Grid(spherical_harmonics_impl=impl, spmd_mesh=trivial_mesh(), **kw)
        else:
            g = sh.Grid(spherical_harmonics_impl=impl, **kw)
    if len(cache) > 64: cache.clear()
    cache[key] = g
    _state.setdefault('used_nodes', set()).add((c.get('spacing', 'gauss'), int(c['J'])))
    return g


def tables(g):
    b = g.spherical_harmonics.basis
    return np.asarray(b.f, dtype=np.float64), np.asarray(b.p, dtype=np.float64), np.asarray(b.w, dtype=np.float64)


def is_fast(c): return c.get('impl', 'real') == 'fast'


def model_synth(ctx, c, g, x):
    """x: (B, rows, cols) float array -> model list (B*In*Jn)."""
    f, p, w = tables(g); B = x.shape[0]
    if not is_fast(c):
        K, L = g.modal_shape; I, Jn = g.nodal_shape
        return ctx.model.call(1, [B, K, L, I, Jn], [f.ravel(), p.ravel(), x.ravel()])
    s = g.spherical_harmonics
    rows, cols = g.modal_shape; I, Jn = g.nodal_shape
    return ctx.model.call(11, [B, int(bool(s.stacked_fourier_transforms)), int(bool(s.reverse_einsum_arg_order)),
                               rows // 2, cols, I, Jn], [f.ravel(), p.ravel(), x.ravel()])


def model_analysis(ctx, c, g, z):
    f, p, w = tables(g); B = z.shape[0]
    if not is_fast(c):
        K, L = g.modal_shape; I, Jn = g.nodal_shape
        return ctx.model.call(2, [B, K, L, I, Jn], [f.ravel(), p.ravel(), w.ravel(), z.ravel()])
    s = g.spherical_harmonics
    rows, cols = g.modal_shape; I, Jn = g.nodal_shape
    return ctx.model.call(12, [B, int(bool(s.stacked_fourier_transforms)), int(bool(s.reverse_einsum_arg_order)),
                               rows // 2, cols, I, Jn], [f.ravel(), p.ravel(), w.ravel(), z.ravel()])


def abs_tables(c, g):
    """|f| as (In, rows), |p| as (rows, Jn, cols) in the stacked-row indexing of the modal array."""
    f, p, w = tables(g)
    if is_fast(c):
        if f.ndim == 3:      # (If, 2, Mh): f3[i,s,m] = f[i,2m+s]
            f = np.transpose(f, (0, 2, 1)).reshape(f.shape[0], -1)
        p = np.repeat(p, 2, axis=0)
    return np.abs(f), np.abs(p), np.abs(w)


def synth_scale(c, g, x):
    af, ap, aw = abs_tables(c, g)
    return float(np.einsum('im,mjl,bml->bij', af, ap, np.abs(x)).max()) + 1e-300


def analysis_scale(c, g, z):
    af, ap, aw = abs_tables(c, g)
    return float(np.einsum('mjl,im,j,bij->bml', ap, af, aw, np.abs(z)).max()) + 1e-300


def to_nodal(g, x):
    jax, jnp, sh, fourier, al = J_()
    return np.asarray(g.to_nodal(jnp.asarray(x)))


def to_modal(g, z):
    jax, jnp, sh, fourier, al = J_()
    return np.asarray(g.to_modal(jnp.asarray(z)))


def indep_mask(c, shape):
    """The triangular truncation from its definition (|m| <= l < L, m in [0,+1,-1,...]; fast layout: extra
    row 1 and all padding excluded) - independent of Grid.mask / modal_axes."""
    rows, cols = shape; M, L = c['M'], c['L']
    mk = np.zeros((rows, cols), bool)
    for a_ in range(2 * M - 1):
        k = a_ if not is_fast(c) else (0 if a_ == 0 else a_ + 1)
        for l_ in range(L):
            mk[k, l_] = (a_ + 1) // 2 <= l_
    return mk


def indep_nodes(c):
    """Longitudes and sin(latitude) nodes from the grid definition (numpy only, no dinosaur/scipy call)."""
    I, Jn = c['I'], c['J']
    lon = 2 * np.pi * np.arange(I) / I + float(c.get('offset', 0.0))
    sp = c.get('spacing', 'gauss')
    if sp == 'gauss':
        x = np.polynomial.legendre.leggauss(Jn)[0]
    elif sp == 'equiangular':
        x = np.sin(-np.pi / 2 + (np.arange(Jn) + 0.5) * np.pi / Jn)
    else:
        x = np.sin(-np.pi / 2 + np.arange(Jn) * np.pi / (Jn - 1)) if Jn > 1 else np.array([-1.0])
    return lon, x


def model_resolves(ctx, c):
    """(resolves?, exact degree D of the latitude rule) from the model's predicate."""
    sp = SPACINGS.index(c.get('spacing', 'gauss'))
    r = ctx.model.call(4, [sp, c['I'], c['J'], c['M'], c['L']])
    return bool(int(r[0])), int(r[1])


def band_limit(c, D):
    """largest Lb <= L with 2(Lb-1) <= D"""
    return max(0, min(c['L'], D // 2 + 1))


# ---------------------------------------------------------------------------
# configurations
# ---------------------------------------------------------------------------
def small_configs(rng, tier):
    """(M, L, I, J, spacing, offset, radius): resolving and deliberately non-resolving grids."""
    out = []
    Ms = [1, 2, 3, 5] if tier == 'quick' else [1, 2, 3, 4, 5, 6, 8]
    n = 0
    for M in Ms:
        for L in (M, M + 1):
            n += 1
            for sp in (SPACINGS if tier != 'quick' else [SPACINGS[n % 3], SPACINGS[(n + 1) % 3]]):
                # a resolving choice of (I, J) for this spacing, odd and even variants by rng
                I = 2 * M - 1 + int(rng.integers(0, 3)) if M > 1 else int(rng.integers(1, 4))
                need = 2 * (L - 1)
                if sp == 'gauss':
                    Jn = (need + 2) // 2 + int(rng.integers(0, 2))        # 2J-1 >= need
                else:
                    Jn = need + 1 + int(rng.integers(0, 2))               # J-1+(J%2) >= need
                    Jn = max(Jn, 2)
                    if Jn - 1 + Jn % 2 < need: Jn += 1
                Jn = max(Jn, 1 if sp != 'equiangular_with_poles' else 2)
                out.append(dict(M=M, L=L, I=I, J=Jn, spacing=sp, offset=[0.0, 0.1][int(rng.integers(0, 2))],
                                radius=[1.0, 7.0 / 3.0][int(rng.integers(0, 2))]))
    # grids that do NOT resolve their truncation (aliasing must not alarm)
    out.append(dict(M=3, L=4, I=3, J=4, spacing='gauss', offset=0.0, radius=1.0))            # I = M
    out.append(dict(M=3, L=4, I=8, J=3, spacing='gauss', offset=0.1, radius=7.0 / 3.0))      # J too small
    out.append(dict(M=2, L=3, I=5, J=4, spacing='equiangular', offset=0.0, radius=1.0))
    out.append(dict(M=3, L=4, I=10, J=5, spacing='equiangular_with_poles', offset=0.0, radius=1.0))   # T*-like, equiangular
    # with_wavenumbers-style grids
    out.append(dict(M=4, L=5, I=13, J=7, spacing='gauss', offset=0.0, radius=1.0))
    # layout thresholds: wide / tall grids, total_wavenumbers > longitude_wavenumbers + 1, longitude_nodes = 2(M-1)
    # (top zonal wavenumber at the Nyquist frequency), extreme radii, offsets outside [0, 2 pi)
    out.append(dict(M=2, L=3, I=200, J=3, spacing='gauss', offset=-0.3, radius=6.37122e6))
    out.append(dict(M=2, L=3, I=5, J=120, spacing='gauss', offset=7.0, radius=1e-3))
    out.append(dict(M=2, L=6, I=5, J=6, spacing='gauss', offset=0.0, radius=1.0))
    out.append(dict(M=4, L=5, I=6, J=5, spacing='gauss', offset=0.1, radius=1.0))
    # nodal and modal shapes coincide (Real: I = 2M-1, J = L; Fast: I = 2M, J = L); Gauss grids with J = L (rule exact
    # just up to the last wavenumber) and J = L-1 (TL-like: last resolved wavenumber is L-2); dyadic extreme radii
    out.append(dict(M=4, L=5, I=7, J=5, spacing='gauss', offset=0.0, radius=2.0 ** 30))
    out.append(dict(M=4, L=5, I=8, J=5, spacing='gauss', offset=0.1, radius=2.0 ** -30))
    out.append(dict(M=5, L=6, I=11, J=6, spacing='gauss', offset=0.0, radius=1.0))
    out.append(dict(M=5, L=6, I=11, J=5, spacing='gauss', offset=0.0, radius=1.0))
    if tier != 'quick':
        out.append(dict(M=3, L=8, I=7, J=15, spacing='equiangular', offset=0.0, radius=7.0 / 3.0))
        out.append(dict(M=2, L=2, I=2, J=2, spacing='equiangular_with_poles', offset=0.0, radius=1.0))
        out.append(dict(M=3, L=4, I=300, J=4, spacing='equiangular', offset=0.1, radius=1.0))
    return out


def r_mesh(ctx, a):
    """Round trips over level axes under a device mesh (the production configuration of the fast
    implementation): level counts not divisible by the z mesh, x meshes of size 4, all field ranks
    (oracle shared with the C07 plugin)."""
    from props import C07
    return C07.r_grid(ctx, dict(a, no_model=True))


def generate(ctx):
    """All cases; VERIF_C01_ONLY=<runner>[,<runner>] restricts the run to some runners (builder self-tests only:
    the random stream, hence every case, is the same as in the full run)."""
    import os
    only = [r for r in os.environ.get('VERIF_C01_ONLY', '').split(',') if r]
    for runner, args in _generate_all(ctx):
        if not only or runner in only:
            yield runner, args


def _generate_all(ctx):
    rng = ctx.rng
    cfgs = small_configs(rng, ctx.tier)
    yield 'factory', {}
    yield 'rejects', {}
    for lc in legendre_cases(rng, ctx.tier):
        yield 'legendre', lc
    for (n_m, n_l) in ([(3, 5), (1, 4), (4, 4)] if ctx.tier == 'quick' else [(3, 5), (1, 4), (4, 4), (6, 8), (2, 9)]):
        yield 'legendre_poly', {'n_m': n_m, 'n_l': n_l, 'seed': int(rng.integers(0, 2 ** 31))}
    # a mesh grid with non-default latitude spacing and longitude offset
    yield 'mesh', {'mesh': [2, 2, 1], 'L': 7, 'K': 2, 'base': 1, 'seed': int(rng.integers(0, 2 ** 31)),
                   'spacing': 'equiangular', 'lon_offset': 0.1}
    # sizes above every threshold of the code and of the test-suite, skinny so that they stay cheap; decided by an
    # independent numpy evaluation of the dumped tables and by real-vs-fast equivalence (NOT by the exact Q model)
    bigs = [dict(M=130, L=131, I=260, J=9, spacing='gauss'),            # default options: stacked Fourier path (128 < M <= 256)
            dict(M=3, L=4, I=8, J=300, spacing='gauss'), dict(M=3, L=3, I=6, J=520, spacing='equiangular'),
            dict(M=2, L=4, I=8, J=1030, spacing='gauss'), dict(M=3, L=4, I=1030, J=4, spacing='gauss')]
    if ctx.tier != 'quick':
        bigs += [dict(M=130, L=131, I=259, J=131, spacing='gauss'), dict(M=257, L=258, I=514, J=6, spacing='gauss'),
                 dict(M=385, L=386, I=770, J=5, spacing='equiangular'), dict(M=3, L=4, I=520, J=300, spacing='gauss'),
                 dict(M=2, L=3, I=4, J=2050, spacing='equiangular_with_poles')]
    for b in bigs:
        yield 'big_numpy', {'cfg': dict(b, offset=0.0, radius=1.0), 'seed': int(rng.integers(0, 2 ** 31))}
    ccfg = dict(M=3, L=4, I=8, J=5, spacing='gauss', offset=0.1, radius=7.0 / 3.0)
    for fc in [dict(ccfg, impl='real'), dict(ccfg, impl='fast', base=4, stacked=1, rev=0), dict(ccfg, impl='fast')] + (
            [] if ctx.tier == 'quick' else [dict(ccfg, impl='fast', base=1, stacked=0, rev=1),
                                            dict(M=2, L=5, I=5, J=9, spacing='equiangular', offset=0.0, radius=1.0, impl='real')]):
        yield 'contexts', {'cfg': fc, 'seed': int(rng.integers(0, 2 ** 31))}
    fcfg = dict(M=3, L=4, I=7, J=4, spacing='gauss', offset=0.1, radius=7.0 / 3.0)
    forms = [dict(fcfg, impl='real'), dict(fcfg, impl='fast', base=4, stacked=1, rev=0),
             dict(fcfg, impl='fast', base=1, stacked=0, rev=1)]
    if ctx.tier != 'quick':
        forms += [dict(M=2, L=5, I=5, J=9, spacing='equiangular', offset=0.0, radius=1.0, impl='real'),
                  dict(M=4, L=4, I=9, J=4, spacing='gauss', offset=0.0, radius=1.0, impl='fast', base=8, stacked=0, rev=0, prec='float32'),
                  dict(fcfg, impl='fast', alias=1)]
    for fc in forms:
        yield 'forms', {'cfg': fc, 'seed': int(rng.integers(0, 2 ** 31))}
    for mesh, K in ([([2, 1, 1], 3), ([1, 4, 2], 2)] if ctx.tier == 'quick' else
                    [([2, 1, 1], 3), ([1, 4, 2], 2), ([4, 2, 1], 5), ([2, 2, 2], 7)]):
        yield 'mesh', {'mesh': mesh, 'L': 7, 'K': K, 'base': 1, 'seed': int(rng.integers(0, 2 ** 31))}
    for (M, I) in ([(1, 1), (1, 4), (2, 3), (2, 2), (3, 5), (3, 8), (5, 9), (5, 16), (4, 4)] if ctx.tier == 'quick' else
                   [(1, 1), (1, 4), (2, 3), (2, 2), (3, 5), (3, 8), (5, 9), (5, 16), (4, 4), (8, 25), (12, 37), (22, 64), (32, 64), (43, 128)]):
        yield 'fourier_closed_form', {'M': M, 'I': I}
    for n, c in enumerate(cfgs):
        ctx.count('spacing:' + c['spacing']); ctx.count(f"M={c['M']}")
        seed = int(rng.integers(0, 2 ** 31))
        yield 'layout', {'cfg': dict(c, impl='real')}
        yield 'tables', {'cfg': dict(c, impl='real')}
        yield 'transforms', {'cfg': dict(c, impl='real'), 'seed': seed, 'max_onehot': 0,
                             'max_model_analysis': 10 if c['I'] * c['J'] < 300 else 2, 'lead': [[], [2], [2, 2]][n % 3]}
        if n % 3 == 0 or c['M'] == 5 or (c['I'], c['J']) == (2 * c['M'], c['L']):
            # the fast implementation on the same grid (options are explored exhaustively by C09)
            fc = dict(c, impl='fast', base=[1, 4, 8][(n // 3) % 3], stacked=int((n // 6) % 2), rev=0)
            yield 'layout', {'cfg': fc}
            yield 'transforms', {'cfg': fc, 'seed': seed, 'max_onehot': 0, 'max_model_analysis': 6,
                                 'lead': [[], [3]][n % 2]}
    if ctx.tier == 'thorough':
        big = [dict(M=12, L=13, I=37, J=19, spacing='gauss', offset=0.0, radius=1.0, fast=1, dense=1),
               dict(M=10, L=11, I=24, J=21, spacing='equiangular', offset=0.1, radius=7.0 / 3.0, fast=0, dense=1),
               dict(M=22, L=23, I=64, J=32, spacing='gauss', offset=0.0, radius=1.0, fast=1, dense=1),        # T21
               dict(M=32, L=33, I=64, J=32, spacing='gauss', offset=0.0, radius=1.0, fast=0, dense=0),        # TL31
               dict(M=22, L=23, I=64, J=32, spacing='equiangular', offset=0.0, radius=1.0, fast=0, dense=0)]  # T21, equiangular
        for n, c in enumerate(big):
            wf, wd = c['fast'], c['dense']
            c = {k: v for k, v in c.items() if k not in ('fast', 'dense')}
            seed = int(rng.integers(0, 2 ** 31))
            yield 'layout', {'cfg': dict(c, impl='real')}
            yield 'tables', {'cfg': dict(c, impl='real')}
            yield 'transforms', {'cfg': dict(c, impl='real'), 'seed': seed, 'max_onehot': 6, 'max_model_analysis': 1,
                                 'lead': [], 'dense_analysis_model': bool(wd)}
            if wf:
                fc = dict(c, impl='fast', base=4, stacked=n % 2, rev=0)
                yield 'layout', {'cfg': fc}
                yield 'transforms', {'cfg': fc, 'seed': seed, 'max_onehot': 4, 'max_model_analysis': 1, 'lead': [],
                                     'dense_analysis_model': False}

    yield 'cache_integrity', {}


# ---------------------------------------------------------------------------
# runners
# ---------------------------------------------------------------------------
def r_factory(ctx, a):
    """Gen/GridTable.v (regenerated from the source) against the live factory methods."""
    jax, jnp, sh, fourier, al = J_()
    tab = ctx.model.call(20, [], [])
    rows = [(int(tab[i]), int(tab[i + 1]), int(tab[i + 2])) for i in range(0, len(tab), 3)]
    names = sorted([n for n in dir(sh.Grid) if n[0] == 'T' and n[1:].lstrip('L').isdigit()],
                   key=lambda s: (s.startswith('TL'), int(s.lstrip('TL'))))
    ctx.exact('number of factory grids', len(names), len(rows))
    for name, (tl, mw, gn) in zip(names, rows):
        g = getattr(sh.Grid, name)()
        m = [int(v) for v in ctx.model.call(17, [mw, gn], [])]
        ctx.exact(f'Grid.{name} attributes', [g.longitude_wavenumbers, g.total_wavenumbers, g.longitude_nodes, g.latitude_nodes], m)
        ctx.exact(f'Grid.{name} family/max wavenumber', [int(name.startswith('TL')), int(name.lstrip('TL'))], [tl, mw])
        g2 = sh.Grid.construct(max_wavenumber=mw, gaussian_nodes=gn, radius=2.0, longitude_offset=0.25,
                               latitude_spacing='equiangular')
        ctx.exact(f'Grid.construct passes options through ({name})', [g2.radius, g2.longitude_offset, g2.latitude_spacing,
                  g2.longitude_wavenumbers, g2.latitude_nodes], [2.0, 0.25, 'equiangular', m[0], m[3]])
    for deal, order in [('linear', 2), ('quadratic', 3), ('cubic', 4)]:
        for M in (1, 2, 5, 8, 21, 42):
            g = sh.Grid.with_wavenumbers(M, dealiasing=deal)
            m = [int(v) for v in ctx.model.call(18, [order, M], [])]
            ctx.exact(f'with_wavenumbers {deal}', [g.longitude_wavenumbers, g.total_wavenumbers, g.longitude_nodes, g.latitude_nodes], m)
    # _CONSTANT_NORMALIZATION_FACTOR (literal read by the translator) against the live module and against sqrt(4 pi)
    from dinosaur import primitive_equations as pe
    cq = ctx.model.call(21, [], [])[0]
    ctx.exact('_CONSTANT_NORMALIZATION_FACTOR literal = live module value', float(cq), float(pe._CONSTANT_NORMALIZATION_FACTOR))
    ctx.table_obligation('|_CONSTANT_NORMALIZATION_FACTOR^2 - 4 pi| <= 1e-6', abs(float(cq) ** 2 - 4 * math.pi) <= 1e-6,
                         {'c': float(cq), 'c^2 - 4pi': float(cq) ** 2 - 4 * math.pi})
    ones = np.asarray(sh.Grid(2, 3, 5, 3).to_modal(jnp.ones((5, 3))))
    ctx.oracle_close('a constant field of ones has sqrt(4 pi) in entry [0,0] (what the literal stands for)',
                     ones[0, 0], np.asarray(math.sqrt(4 * math.pi)), scale=8.0)
    ctx.oracle_close('... and the literal agrees with it to float32 accuracy', np.asarray(float(cq)), ones[0, 0], scale=1.0, tol_rel=1e-7)
    # keyword pass-through of the other constructors, and re-construction with one changed field
    import dataclasses
    gw = sh.Grid.with_wavenumbers(5, dealiasing='cubic', latitude_spacing='equiangular', longitude_offset=0.3, radius=2.0,
                                  spherical_harmonics_impl=sh.FastSphericalHarmonics)
    ctx.exact('with_wavenumbers passes options through', [gw.latitude_spacing, gw.longitude_offset, gw.radius, list(gw.modal_shape),
              gw.longitude_nodes, gw.latitude_nodes], ['equiangular', 0.3, 2.0, [10, 6], 21, 11])
    gt = sh.Grid.T21(radius=3.0, spherical_harmonics_impl=sh.FastSphericalHarmonics, longitude_offset=0.5, latitude_spacing='equiangular_with_poles')
    ctx.exact('factory methods pass keyword options through', [gt.radius, list(gt.modal_shape), gt.longitude_offset, gt.latitude_spacing],
              [3.0, [44, 23], 0.5, 'equiangular_with_poles'])
    g1 = sh.Grid(3, 4, 8, 5, radius=1.0); _ = g1.laplacian_eigenvalues, g1.nodal_axes
    g2 = dataclasses.replace(g1, radius=2.0, longitude_offset=0.25)
    ctx.exact('a grid rebuilt with another radius / offset does not reuse cached attributes',
              [float(g2.laplacian_eigenvalues[1]), float(g1.laplacian_eigenvalues[1]), float(g2.nodal_axes[0][0]), float(g1.nodal_axes[0][0])],
              [-0.5, -2.0, 0.25, 0.0])
    # radius default
    ctx.exact('radius default', sh.Grid(2, 3, 4, 3).radius, 1.0)


def r_layout(ctx, a):
    c = a['cfg']; g = make_grid(c)
    m_ax, l_ax = g.modal_axes
    mask = np.asarray(g.mask)
    if not is_fast(c):
        r = ctx.model.call(0, [c['M'], c['L']], [])
        K = int(r[0]); L = c['L']
        ctx.exact('modal_shape (real)', list(g.modal_shape), [K, L])
        ctx.exact('nodal_shape (real)', list(g.nodal_shape), [c['I'], c['J']])
        ctx.exact('paddings (real)', list(g.modal_padding) + list(g.nodal_padding), [0, 0, 0, 0])
        ctx.exact('modal_axes m (real)', [int(v) for v in m_ax], [int(v) for v in r[1:1 + K]])
        ctx.exact('modal_axes l (real)', [int(v) for v in l_ax], [int(v) for v in r[1 + K:1 + K + L]])
        ctx.exact('mask (real)', mask.astype(int).ravel().tolist(), [int(v) for v in r[1 + K + L:]])
    else:
        s = g.spherical_harmonics
        r = ctx.model.call(10, [int(s.base_shape_multiple or 1), 1, 1, c['M'], c['L'], c['I'], c['J']], [])
        rows, cols, In, Jn = [int(v) for v in r[:4]]
        ctx.exact('modal_shape (fast)', list(g.modal_shape), [rows, cols])
        ctx.exact('nodal_shape (fast)', list(g.nodal_shape), [In, Jn])
        ctx.exact('paddings (fast)', list(g.modal_padding) + list(g.nodal_padding),
                  [rows - 2 * c['M'], cols - c['L'], In - c['I'], Jn - c['J']])
        if c.get('stacked') is None:
            ctx.exact('default stacked_fourier_transforms', int(bool(s.stacked_fourier_transforms)), int(r[4]))
        ctx.exact('modal_axes m (fast)', [int(v) for v in m_ax], [int(v) for v in r[5:5 + rows]])
        ctx.exact('modal_axes l (fast)', [int(v) for v in l_ax], [int(v) for v in r[5 + rows:5 + rows + cols]])
        ctx.exact('mask (fast)', mask.astype(int).ravel().tolist(), [int(v) for v in r[5 + rows + cols:]])
    # independent definitions: triangle mask, node coordinates (grid definition, numpy only)
    ctx.oracle('Grid.mask is the triangular truncation |m| <= l < L (independent definition)',
               bool(np.array_equal(mask, indep_mask(c, g.modal_shape))), None)
    lon, x = indep_nodes(c)
    glon, gsin = g.nodal_axes
    ctx.oracle_close('longitudes = offset + 2 pi i / I', np.asarray(glon)[:c['I']], lon, scale=max(1.0, abs(float(c.get('offset', 0.0))) + 7.0), tol_rel=2.0 ** -48)
    ctx.oracle_close('sin(latitude) nodes = nodes of the declared spacing (numpy leggauss / equal angles)', np.asarray(gsin)[:c['J']], x,
                     scale=1.0, tol_rel=2.0 ** -44)
    ctx.oracle_close('Grid.latitudes = arcsin(nodes), Grid.longitudes', np.concatenate([np.asarray(g.latitudes)[:c['J']], np.asarray(g.longitudes)[:c['I']]]),
                     np.concatenate([np.arcsin(np.clip(x, -1, 1)), lon]), scale=8.0 + abs(float(c.get('offset', 0.0))), tol_rel=2.0 ** -24)
    if is_fast(c):
        ctx.oracle('padded nodal axes are zero (+offset)', bool((np.asarray(gsin)[c['J']:] == 0).all()
                   and (np.asarray(glon)[c['I']:] == float(c.get('offset', 0.0))).all()), None)
    # Laplacian eigenvalue table over the (padded) l axis
    e = ctx.model.call(5, [c['L'], g.modal_shape[1]], [[float(g.radius)]])
    ctx.corr('laplacian_eigenvalues', np.asarray(g.laplacian_eigenvalues, dtype=np.float64), e,
             scale=float(c['L'] * (c['L'] + 1) / g.radius ** 2) + 1.0)
    ctx.count('layout:' + c.get('impl', 'real'))


def legendre_gram(p_m, wp):
    """G[m,l,k] = sum_j wp_j p[m,j,l] p[m,j,k]; also the term-magnitude scale."""
    G = np.einsum('j,mjl,mjk->mlk', wp, p_m, p_m)
    S = np.einsum('j,mjl,mjk->mlk', np.abs(wp), np.abs(p_m), np.abs(p_m))
    return G, S


def r_tables(ctx, a):
    """Table obligations: the named hypotheses of the theorems on the implementation's own tables."""
    jax, jnp, sh, fourier, al = J_()
    c = a['cfg']; g = make_grid(c)
    f, p, w = tables(g)
    M, L, I, Jn = c['M'], c['L'], c['I'], c['J']
    K = 2 * M - 1
    res, D = model_resolves(ctx, c)
    tol = 2.0 ** -36
    _, wf = fourier.quadrature_nodes(I)
    _, wp = sh.get_latitude_nodes(Jn, c['spacing'])
    wf = float(wf); wp = np.asarray(wp, dtype=np.float64)
    mabs = (np.arange(K) + 1) // 2
    ctx.table_obligation('shapes of basis.f/p/w', f.shape == (I, K) and p.shape == (K, Jn, L) and w.shape == (Jn,),
                         [f.shape, p.shape, w.shape])
    # H_weights: w = wf * wp exactly
    ctx.table_obligation('H_weights (w = wf*wp, exact)', bool(np.array_equal(w, wf * wp)), None)
    # H_p_support: exact zeros below the diagonal
    below = mabs[:, None] > np.arange(L)[None, :]
    bad = np.abs(p.transpose(0, 2, 1)[below])
    ctx.table_obligation('H_p_support (p[a,j,l] == 0 exactly for l < |m(a)|)', bool((bad == 0).all()),
                         None if (bad == 0).all() else float(bad.max()))
    # H_fourier_orth
    if I >= 2 * M - 1:
        G = wf * f.T @ f
        err = float(np.abs(G - np.eye(K)).max())
        ctx.table_obligation('H_fourier_orth', err <= tol * 4, {'max_err': err})
    else:
        ctx.count('grid:fourier-aliased')
        # column 0 is still orthogonal to every other column as soon as I >= M
        G0 = wf * f[:, 0] @ f
        err = float(np.abs(G0 - np.eye(K)[0]).max())
        ctx.table_obligation('H_fourier_orth (column 0 only, I < 2M-1)', err <= tol * 4, {'max_err': err})
    # H_legendre_orth restricted to the degrees the rule resolves: l + l' <= D
    G, S = legendre_gram(p, wp)
    ll = np.arange(L)[:, None] + np.arange(L)[None, :]
    worst = 0.0; ok = True
    for a_ in range(K):
        m = mabs[a_]
        sel = (ll <= D) & (np.arange(L)[:, None] >= m) & (np.arange(L)[None, :] >= m)
        e = np.abs(G[a_] - np.eye(L))[sel]
        s = S[a_][sel]
        if e.size:
            worst = max(worst, float(e.max()))
            ok = ok and bool((e <= tol * np.maximum(s, 1.0)).all())
    ctx.table_obligation(f'H_legendre_orth restricted to l+l\' <= D={D}', ok, {'max_err': worst, 'resolves': res})
    # the rows of p are duplicated (cos / sin share the Legendre function)
    dup = all(np.array_equal(p[2 * m - 1], p[2 * m]) for m in range(1, M))
    ctx.table_obligation('p rows duplicated for +m / -m (exact)', dup, None)
    # H_f0, H_p00
    c1 = 1 / math.sqrt(2 * math.pi); c0 = 1 / math.sqrt(2)
    ctx.table_obligation('H_f0 (f[i,0] = 1/sqrt(2 pi), constant)',
                         bool((np.abs(f[:, 0] - c1) <= tol).all() and (f[:, 0] == f[0, 0]).all()), float(np.abs(f[:, 0] - c1).max()))
    ctx.table_obligation('H_p00 (p[0,j,0] = 1/sqrt 2, constant)',
                         bool((np.abs(p[0, :, 0] - c0) <= tol).all() and (p[0, :, 0] == p[0, 0, 0]).all()), float(np.abs(p[0, :, 0] - c0).max()))
    # sum of weights = area of the unit sphere
    tot = float(I * w.sum())
    ctx.table_obligation('sum of quadrature weights = 4 pi', abs(tot - 4 * math.pi) <= tol * 4 * math.pi * max(1.0, float(np.abs(w).sum() / abs(w.sum()))),
                         {'sum': tot})
    ctx.table_obligation('Grid.quadrature_weights is basis.w broadcast',
                         bool(np.array_equal(np.asarray(g.quadrature_weights), np.broadcast_to(w, (I, Jn)))), None)
    # independent characterisation of the latitude rule: exact monomial moments up to its degree D
    _, xi = indep_nodes(c)
    xs, _ = sh.get_latitude_nodes(Jn, c['spacing'])
    mom_ok = True; worst = 0.0
    for n_ in range(0, D + 1):
        want = 2.0 / (n_ + 1) if n_ % 2 == 0 else 0.0
        e = abs(float(np.sum(wp * xi ** n_)) - want)
        worst = max(worst, e); mom_ok = mom_ok and e <= tol * max(1.0, float(np.abs(wp).sum()))
    ctx.table_obligation(f'latitude rule integrates x^n exactly for n <= D={D} (independent nodes)', mom_ok, {'max_err': worst})
    # parity of the Legendre functions on the (symmetric) nodes: p[a, J-1-j, l] = (-1)^(l-|m|) p[a, j, l]
    sgn = (-1.0) ** ((np.arange(L)[None, :] - mabs[:, None]) % 2)
    pe_ = np.abs(p[:, ::-1, :] - sgn[:, None, :] * p)
    ctx.table_obligation('parity p(-x) = (-1)^(l-m) p(x) on the symmetric nodes', bool((pe_ <= 2.0 ** -30 * (np.abs(p).max() + 1)).all()),
                         float(pe_.max()))
    # associated_legendre._evaluate_rhombus: default 'rhombus' truncation agrees with 'triangle' on the triangle
    rh = al._evaluate_rhombus(n_l=L, n_m=M, x=xs); tr = al._evaluate_rhombus(n_l=L, n_m=M, x=xs, truncation='triangle')
    tri = (np.arange(L)[:, None] + np.arange(M)[None, :]) < L
    ctx.table_obligation('_evaluate_rhombus: rhombus and triangle truncations agree on the triangle, triangle is zero outside',
                         bool(np.array_equal(rh[tri], tr[tri]) and (tr[~tri] == 0).all()), None)
    # cached node tables (lru_cache) have not been mutated by anything run so far in this process
    if c['spacing'] != 'gauss':
        fn = al.equiangular_nodes if c['spacing'] == 'equiangular' else al.equiangular_nodes_with_poles
        xc, wc = fn(Jn); xf, wf_ = fn.__wrapped__(Jn)
        ctx.oracle('lru_cached latitude nodes / weights equal a fresh evaluation (cache not mutated)',
                   bool(np.array_equal(xc, xf) and np.array_equal(wc, wf_)), None)
    ctx.count('grid:resolves' if res else 'grid:does-not-resolve')


def onehots(shape, positions):
    x = np.zeros((len(positions),) + tuple(shape))
    for n, (a_, l_) in enumerate(positions): x[n, a_, l_] = 1.0
    return x


def r_transforms(ctx, a):
    """Model vs implementation on one-hot and dense spectra; the property's clauses on the implementation.
    All spectra of one configuration go through ONE batched to_nodal / to_modal / integrate call (few XLA
    compilations); the leading-axes layout is exercised by a second call on the dense part."""
    jax, jnp, sh, fourier, al = J_()
    c = a['cfg']; g = make_grid(c)
    rng = np.random.Generator(np.random.PCG64(a['seed']))
    rows, cols = g.modal_shape; In, Jn = g.nodal_shape
    mask = indep_mask(c, g.modal_shape)          # the truncation from its definition, not Grid.mask
    res, D = model_resolves(ctx, c)
    Lb = band_limit(c, D)
    fast = is_fast(c)
    meshed = bool(c.get('rev'))
    snap = [t.copy() for t in tables(g)]
    tag = c.get('impl', 'real')
    r2 = float(g.radius) ** 2
    f, p, w = tables(g)
    tol = 2.0 ** -36

    # ---- the spectra: every one-hot (all (row, l) incl. masked-out, extra-row, padded positions),
    #      dense small-integer spectra (lead-shaped), their masked and band-limited versions
    allpos = [(a_, l_) for a_ in range(rows) for l_ in range(cols)]
    n1 = len(allpos)
    lead = tuple(a.get('lead', []))
    if meshed and len(lead) > 1: lead = lead[:1]
    B = int(np.prod(lead)) if lead else 1
    xd = rng.integers(-8, 9, size=(B, rows, cols)).astype(np.float64)
    xi = xd.copy(); xi[:, :, min(c['L'], D + 1):] = 0          # band-limited to what the rule integrates exactly
    X = np.concatenate([onehots((rows, cols), allpos), xd, xd * mask, xi])
    sl_d = slice(n1, n1 + B); sl_m = slice(n1 + B, n1 + 2 * B); sl_i = slice(n1 + 2 * B, n1 + 3 * B)

    def batched(fn, arr):
        if meshed and arr.ndim > 3:
            raise ValueError('mesh: one leading axis only')
        return fn(g, arr)
    Z = batched(to_nodal, X)
    ctx.exact('to_nodal output shape', list(Z.shape), [len(X), In, Jn])
    Y = batched(to_modal, Z)
    ctx.exact('to_modal output shape', list(Y.shape), [len(X), rows, cols])
    INT = np.asarray(g.integrate(jnp.asarray(Z))).reshape((-1,))

    # ---- model vs implementation
    nmodel = n1 if not a.get('max_onehot') else min(n1, a['max_onehot'])
    pick = sorted(rng.choice(n1, size=nmodel, replace=False).tolist()) if nmodel < n1 else list(range(n1))
    ctx.corr(f'to_nodal on one-hot spectra [{tag}]', Z[pick], model_synth(ctx, c, g, X[pick]), scale=synth_scale(c, g, X[pick]))
    ctx.count('onehot_spectra', n1); ctx.count('onehot_spectra_in_model', len(pick))
    na = min(len(pick), a.get('max_model_analysis', 8))
    apick = [pick[i] for i in sorted(rng.choice(len(pick), size=na, replace=False).tolist())] if na else []
    if apick:
        ctx.corr(f'to_modal on synthesised one-hot fields [{tag}]', Y[apick], model_analysis(ctx, c, g, Z[apick]),
                 scale=analysis_scale(c, g, Z[apick]))
    ctx.corr(f'to_nodal dense [{tag}]', Z[sl_d], model_synth(ctx, c, g, X[sl_d]), scale=synth_scale(c, g, X[sl_d]))
    if a.get('dense_analysis_model', True):
        ctx.corr(f'to_modal dense [{tag}]', Y[sl_d], model_analysis(ctx, c, g, Z[sl_d]), scale=analysis_scale(c, g, Z[sl_d]))
    iscale = float(np.einsum('j,bij->b', np.abs(w), np.abs(Z[sl_d])).max() * r2) + 1e-300
    ctx.corr(f'integrate [{tag}]', INT[sl_d], ctx.model.call(3, [B, In, Jn], [w.ravel(), [float(g.radius)], Z[sl_d].ravel()]), scale=iscale)
    if not fast:
        mm = ctx.model.call(6, [rows, cols], [xd[0].ravel()])
    else:
        mm = ctx.model.call(19, [c['M'], c['L'], rows, cols], [xd[0].ravel()])
    ctx.exact('mask (.) x', (xd[0] * mask).ravel().tolist(), [float(v) for v in mm])

    # ---- leading axes: the same dense spectra in their lead-shaped layout
    if lead:
        zl = to_nodal(g, xd.reshape(lead + (rows, cols)))
        ctx.exact('to_nodal output shape (leading axes)', list(zl.shape), list(lead) + [In, Jn])
        yl = to_modal(g, zl)
        ctx.exact('to_modal output shape (leading axes)', list(yl.shape), list(lead) + [rows, cols])
        ctx.oracle_close('leading axes act independently (synthesis: lead-shaped = batched)', zl.reshape((B, In, Jn)), Z[sl_d],
                         scale=synth_scale(c, g, xd))
        ctx.oracle_close('leading axes act independently (analysis: lead-shaped = batched)', yl.reshape((B, rows, cols)), Y[sl_d],
                         scale=analysis_scale(c, g, Z[sl_d]))
    ctx.count(f'lead_axes={len(lead)}')

    # ---- the property's clauses on the implementation
    outside = [n for n, (a_, l_) in enumerate(allpos) if not mask[a_, l_]]
    badz = [n for n in outside if not (Z[n] == 0).all()]
    ctx.oracle('coefficients outside the triangular truncation never influence the synthesis (exact zero field)',
               not badz, None if not badz else {'position': list(allpos[badz[0]])})
    ctx.oracle('synth(x) == synth(mask*x) (masked coefficients are inert)',
               bool(np.abs(Z[sl_d] - Z[sl_m]).max() <= 2.0 ** -44 * synth_scale(c, g, xd)), float(np.abs(Z[sl_d] - Z[sl_m]).max()))
    if fast:
        padz = np.zeros(Z.shape[1:], bool); padz[c['I']:, :] = True; padz[:, c['J']:] = True
        ctx.oracle('padded nodal entries of a synthesis are exactly zero', bool((Z[:, padz] == 0).all()), None)
        ex = np.zeros((rows, cols), bool); ex[1, :] = True; ex[2 * c['M']:, :] = True; ex[:, c['L']:] = True
        ctx.oracle('extra row / padded modal entries of an analysis are exactly zero', bool((Y[:, ex] == 0).all()), None)
    # round trip: exact up to the wavenumber the quadrature resolves
    fourier_ok = c['I'] >= 2 * c['M'] - 1
    lmax_out = min(c['L'] - 1, D - (Lb - 1)) if Lb > 0 else -1
    if fourier_ok and Lb > 0:
        chk = np.arange(cols) <= lmax_out
        worst = 0.0; where = None
        for n, (a_, l_) in enumerate(allpos):
            if l_ >= Lb and mask[a_, l_]:
                continue               # input not band-limited to what the rule resolves: no claim (sht_gram applies)
            e = np.abs(Y[n] - X[n] * mask)[:, chk]
            if e.size and e.max() > worst: worst = float(e.max()); where = list(allpos[n])
        ctx.oracle('round trip returns mask*x on band-limited spectra (grids/degrees the quadrature resolves)',
                   worst <= tol * 8, {'max_err': worst, 'one_hot': where, 'D': D, 'Lb': Lb, 'resolves': res})
        if res:
            ctx.oracle_close('round trip on dense spectra (resolving grid)', Y[sl_d], xd * mask, scale=analysis_scale(c, g, Z[sl_d]))
        ctx.count('roundtrip_oracle:full' if res else 'roundtrip_oracle:bandlimited')
    else:
        ctx.count('roundtrip_oracle:skipped(aliasing grid)')
    # sht_gram on the implementation: round trip = Gram operator of the dumped tables, on every grid (aliasing included)
    if not fast:
        KL = rows * cols
        Gr = ((f.T @ f)[:, None, :, None] * np.einsum('j,ajl,bjk->albk', w, p, p, optimize=True)).reshape(KL, KL)
        Ga = ((np.abs(f).T @ np.abs(f))[:, None, :, None]
              * np.einsum('j,ajl,bjk->albk', np.abs(w), np.abs(p), np.abs(p), optimize=True))
        pred = (X[:n1 + B].reshape(n1 + B, KL) @ Gr.T).reshape(n1 + B, rows, cols)
        gs = float(Ga.max()) + 1e-300
        ctx.oracle_close('analysis(synth x) = Gram operator of the tables applied to x (one-hot and dense x, any grid)',
                         Y[:n1 + B], pred, scale=gs * 8 * max(1.0, float(np.abs(xd).sum(axis=(1, 2)).max())))
    # integral identity (needs the rule exact for degree l only: x band-limited to l <= D)
    want = r2 * math.sqrt(4 * math.pi) * xi[:, 0, 0]
    ctx.oracle_close('integrate(synth x) = radius^2 * sqrt(4 pi) * x[0,0]', INT[sl_i], want,
                     scale=float(np.einsum('j,bij->b', np.abs(w), np.abs(Z[sl_i])).max() * r2) + 1e-300)
    ctx.oracle_close('integrate of one-hot fields = radius^2 sqrt(4 pi) delta', INT[:n1][[n for n, (a_, l_) in enumerate(allpos) if l_ <= D]],
                     np.array([r2 * math.sqrt(4 * math.pi) * (1.0 if (a_, l_) == (0, 0) else 0.0) for (a_, l_) in allpos if l_ <= D]),
                     scale=float(np.einsum('j,bij->b', np.abs(w), np.abs(Z[:n1])).max() * r2) + 1e-300)
    # analytic fields sampled on independently computed nodes: 1, sin(lat), cos(lat)cos(lon), cos(lat)sin(lon)
    # (orthonormal real harmonics with the Condon-Shortley phase: Y00 = 1/sqrt(4pi), Y10 = sqrt(3/4pi) sin(lat),
    #  Y1,+-1 = -sqrt(3/4pi) cos(lat) {cos,sin}(lon); the transform's longitudes start at 0, offset only labels them)
    lon0 = 2 * np.pi * np.arange(c['I']) / c['I']; _, xn = indep_nodes(c)
    cosl = np.sqrt(np.maximum(0.0, 1 - xn ** 2))
    fields = [(np.ones((c['I'], c['J'])), (0, 0), math.sqrt(4 * math.pi), 0, 0)]
    if c['L'] >= 2: fields.append((np.broadcast_to(xn, (c['I'], c['J'])).copy(), (0, 1), math.sqrt(4 * math.pi / 3), 0, 1))
    if c['L'] >= 2 and c['M'] >= 2:
        fields.append((np.cos(lon0)[:, None] * cosl[None, :], (1, 1), -math.sqrt(4 * math.pi / 3), 1, 1))
        fields.append((np.sin(lon0)[:, None] * cosl[None, :], (2, 1), -math.sqrt(4 * math.pi / 3), 1, 1))
    for fld, (a_, l_), coef, m_, deg in fields:
        # needs: products with every retained basis function integrated exactly in latitude, no zonal aliasing
        if deg + (c['L'] - 1) > D or m_ + (c['M'] - 1) >= c['I']:
            ctx.count('analytic field skipped (rule does not resolve it)'); continue
        zf = np.zeros((In, Jn)); zf[:c['I'], :c['J']] = fld
        yf = to_modal(g, zf)
        want = np.zeros((rows, cols)); want[(a_ if not fast else (0 if a_ == 0 else a_ + 1)), l_] = coef
        ctx.oracle_close(f'to_modal of the analytic field of degree {deg}, order {m_} has the single coefficient {coef:.6f}',
                         yf, want, scale=8.0 * max(1.0, float(np.abs(w).sum() * c['I'])))
    # purity: same input again after other calls -> bit-identical; cached basis tables not mutated
    Z2 = batched(to_nodal, X)
    ctx.oracle('repeated to_nodal call (interleaved with other inputs) is bit-identical', bool(np.array_equal(Z, Z2, equal_nan=True)), None)
    ctx.oracle('cached basis tables are not mutated by the transforms',
               bool(all(np.array_equal(t0, t1) for t0, t1 in zip(snap, tables(g)))), None)
    ctx.count('transforms:' + tag)


def r_fourier_closed_form(ctx, a):
    """Model/FourierR.v (the closed form whose orthonormality is proved over R) against fourier.real_basis /
    real_basis_with_zero_imag / quadrature_nodes: the model receives numpy's cos(k x_i), sin(k x_i) tables and the
    two square roots and must reproduce the column layout and normalisation of basis.f."""
    jax, jnp, sh, fourier, al = J_()
    M, I = a['M'], a['I']
    x, wq = fourier.quadrature_nodes(I)
    ctx.exact('quadrature_nodes: x_i = 2 pi i / I, weight 2 pi / I',
              [bool(np.allclose(x, 2 * np.pi * np.arange(I) / I, rtol=0, atol=1e-15)), float(wq)], [True, 2 * np.pi / I])
    k = np.arange(M)[:, None]
    c = np.cos(k * x[None, :]); s = np.sin(k * x[None, :])
    consts = [float(np.sqrt(2 * np.pi)), float(np.sqrt(np.pi))]
    f = fourier.real_basis(wavenumbers=M, nodes=I)
    ctx.corr('fourier.real_basis = closed form [const, cos 1, sin 1, cos 2, ...]/sqrt(pi)', f,
             ctx.model.call(22, [M, I], [consts, c.ravel(), s.ravel()]), scale=1.0)
    fz = fourier.real_basis_with_zero_imag(wavenumbers=M, nodes=I)
    ctx.corr('fourier.real_basis_with_zero_imag = closed form [const, 0, cos 1, sin 1, ...]', fz,
             ctx.model.call(23, [M, I], [consts, c.ravel(), s.ravel()]), scale=1.0)
    g = make_grid(dict(M=M, L=M, I=I, J=max(M, 2), spacing='gauss', offset=0.0, radius=1.0, impl='real'))
    ctx.exact('basis.f is fourier.real_basis', bool(np.array_equal(tables(g)[0], f)), True)
    # the proved statement evaluated on the implementation: orthonormal iff wavenumber sums stay below I
    G = float(wq) * f.T @ f
    mab = (np.arange(2 * M - 1) + 1) // 2
    ok_pairs = (mab[:, None] + mab[None, :]) < I
    err = np.abs(G - np.eye(2 * M - 1))
    ctx.oracle('Fourier columns orthonormal for every pair with |m(a)|+|m(b)| < I (the proved condition)',
               bool((err[ok_pairs] <= 2.0 ** -40 * 8).all()), float(err[ok_pairs].max()) if ok_pairs.any() else 0.0)
    ctx.count('fourier:I>=2M-1' if I >= 2 * M - 1 else 'fourier:aliasing(I<2M-1)')
    if I < 2 * M - 1:
        ctx.count('fourier:aliased pairs with Gram error > 0.1', int((err[~ok_pairs] > 0.1).sum()))


def r_rejects(ctx, a):
    """Documented rejections (both implementations)."""
    jax, jnp, sh, fourier, al = J_()
    def raises(fn, exc=ValueError):
        try: fn(); return False
        except exc: return True
    for impl in (sh.RealSphericalHarmonics, sh.FastSphericalHarmonics):
        nm = impl.__name__
        ctx.oracle(f'unknown latitude_spacing rejected [{nm}]', raises(lambda: sh.Grid(3, 4, 8, 5, latitude_spacing='foo', spherical_harmonics_impl=impl)), None)
        ctx.oracle(f'longitude_wavenumbers > total_wavenumbers rejected when the basis is built [{nm}]',
                   raises(lambda: sh.Grid(4, 3, 8, 5, spherical_harmonics_impl=impl).spherical_harmonics.basis), None)
        ctx.oracle(f'longitude_nodes < longitude_wavenumbers rejected when the basis is built [{nm}]',
                   raises(lambda: sh.Grid(5, 6, 4, 5, spherical_harmonics_impl=impl).spherical_harmonics.basis), None)
        g = sh.Grid(3, 4, 8, 5, spherical_harmonics_impl=impl)
        x = np.ones(g.modal_shape)
        for n in (0, -1):
            ctx.oracle(f'clip_wavenumbers(n={n}) rejected [{nm}]', raises(lambda: g.clip_wavenumbers(x, n=n)), None)
        ctx.oracle(f'longitude_nodes == longitude_wavenumbers accepted [{nm}]',
                   not raises(lambda: sh.Grid(4, 5, 4, 5, spherical_harmonics_impl=impl).spherical_harmonics.basis, Exception), None)
    ctx.oracle('get_latitude_nodes: unknown spacing rejected', raises(lambda: sh.get_latitude_nodes(3, 'bar')), None)
    ctx.oracle('mesh without the x / y axis names rejected',
               raises(lambda: sh.Grid(3, 4, 8, 5, spherical_harmonics_impl=sh.FastSphericalHarmonics,
                                      spmd_mesh=jax.sharding.Mesh(np.array(jax.devices()[:1]).reshape(1, 1), ('a', 'b')))), None)


def r_forms(ctx, a):
    """Argument forms, dtypes, ranks and batch layouts of to_nodal / to_modal / integrate: every form must give the
    result of the plain float64 batched call (itself tied to the model by the `transforms` runner)."""
    jax, jnp, sh, fourier, al = J_()
    c = a['cfg']; g = make_grid(c)
    rng = np.random.Generator(np.random.PCG64(a['seed']))
    rows, cols = g.modal_shape; In, Jn = g.nodal_shape
    meshed = bool(c.get('rev'))
    tag = c.get('impl', 'real') + ('/mesh' if meshed else '') + ('/alias' if c.get('alias') else '') + ('/prec' if c.get('prec') else '')
    NB = 6
    xi = rng.integers(-8, 9, size=(NB, rows, cols))
    x = xi.astype(np.float64)
    Z = to_nodal(g, x); Y = to_modal(g, Z)
    # the reference itself against an independent dense evaluation with the dumped tables (numpy, float64)
    af, ap, aw = tables(g)
    if is_fast(c):
        if af.ndim == 3: af = np.transpose(af, (0, 2, 1)).reshape(af.shape[0], -1)
        ap = np.repeat(ap, 2, axis=0)
    ctx.oracle_close(f'to_nodal = sum_m f[i,m] sum_l p[m,j,l] x[m,l] (numpy) [{tag}]', Z, np.einsum('im,mjl,bml->bij', af, ap, x),
                     scale=synth_scale(c, g, x))
    ctx.oracle_close(f'to_modal = sum_j p[m,j,l] sum_i f[i,m] w[j] z[i,j] (numpy) [{tag}]', Y, np.einsum('mjl,im,j,bij->bml', ap, af, aw, Z),
                     scale=analysis_scale(c, g, Z))
    s_syn = synth_scale(c, g, x); s_ana = analysis_scale(c, g, Z)
    def same(name, got, want, scale):
        ctx.oracle_close(f'{name} [{tag}]', np.asarray(got, dtype=np.float64), want, scale=scale, tol_rel=2.0 ** -44)
    # dtypes
    yi = g.to_nodal(jnp.asarray(xi))
    ctx.oracle(f'integer-typed spectrum gives a float64 field [{tag}]', str(yi.dtype) == 'float64', str(yi.dtype))
    same('integer-typed spectrum', yi, Z, s_syn)
    y32 = g.to_nodal(jnp.asarray(xi, dtype=jnp.float32))
    same('float32 spectrum (exactly representable values) in x64 mode', y32, Z, s_syn)
    z32 = Z.astype(np.float32).astype(np.float64)
    same('float32 field in x64 mode', g.to_modal(jnp.asarray(z32, dtype=jnp.float32)), to_modal(g, z32), analysis_scale(c, g, z32))
    # numpy forms: strided view, transposed-storage view, read-only, python nesting (pytree with scalars left alone)
    big = np.zeros((2 * NB, rows, cols)); big[::2] = x
    same('strided view', g.to_nodal(big[::2]), Z, s_syn)
    fo = np.asfortranarray(x)
    same('Fortran-ordered array', g.to_nodal(fo), Z, s_syn)
    ro = x.copy(); ro.flags.writeable = False
    same('read-only array', g.to_nodal(ro), Z, s_syn)
    if not meshed:
        tree = g.to_nodal({'a': x, 's': 2.5, 't': (x[0], 7)})
        ctx.oracle(f'pytree input: scalars untouched, structure kept [{tag}]',
                   isinstance(tree, dict) and tree['s'] == 2.5 and tree['t'][1] == 7, None)
        same('pytree leaf a', tree['a'], Z, s_syn); same('pytree leaf t[0]', tree['t'][0], Z[0], s_syn)
        back = g.to_modal({'a': Z, 't': (Z[0],)})
        same('pytree to_modal', back['a'], Y, s_ana); same('pytree to_modal t[0]', back['t'][0], Y[0], s_ana)
    # ranks and batch layouts: no leading axis, size-1 axis, batch = rows, batch = cols, three leading axes
    same('rank 2 (no leading axis)', g.to_nodal(x[1]), Z[1], s_syn)
    same('rank 2 to_modal', g.to_modal(Z[1]), Y[1], s_ana)
    same('size-1 leading axis', g.to_nodal(x[2:3]), Z[2:3], s_syn)
    same('size-1 leading axis to_modal', g.to_modal(Z[2:3]), Y[2:3], s_ana)
    for nb, nm in (((rows, 'batch size = modal rows'), (cols, 'batch size = modal columns'), (In, 'batch size = longitude nodes'))
                   if not meshed else ((cols, 'batch size = modal columns'),)):
        xb = rng.integers(-8, 9, size=(nb, rows, cols)).astype(np.float64)
        zb = to_nodal(g, xb)
        ref = np.stack([to_nodal(g, xb[n]) for n in range(min(nb, 3))])
        same(nm, zb[:len(ref)], ref, synth_scale(c, g, xb))
        yb = to_modal(g, zb)
        same(nm + ' (to_modal)', yb[:len(ref)], np.stack([to_modal(g, zb[n]) for n in range(len(ref))]), analysis_scale(c, g, zb))
    if not meshed:
        x5 = x.reshape((1, 2, 3, rows, cols))
        z5 = g.to_nodal(x5)
        ctx.exact(f'rank-5 output shape [{tag}]', list(z5.shape), [1, 2, 3, In, Jn])
        same('rank 5 (three leading axes)', np.asarray(z5).reshape((NB, In, Jn)), Z, s_syn)
        y5 = g.to_modal(z5)
        same('rank 5 to_modal', np.asarray(y5).reshape((NB, rows, cols)), Y, s_ana)
        i5 = np.asarray(g.integrate(z5))
        ctx.exact(f'integrate keeps the leading axes [{tag}]', list(i5.shape), [1, 2, 3])
        same('integrate rank 5', i5.reshape((NB,)), np.asarray(g.integrate(jnp.asarray(Z))),
             float(np.einsum('j,bij->b', np.abs(aw), np.abs(Z)).max() * g.radius ** 2) + 1e-300)
    same('integrate rank 2', np.asarray(g.integrate(jnp.asarray(Z[0]))), np.asarray(g.integrate(jnp.asarray(Z)))[0],
         float(np.einsum('j,bij->b', np.abs(aw), np.abs(Z)).max() * g.radius ** 2) + 1e-300)
    # NaN in one slice stays in that slice (leading axes are independent)
    xn = x.copy(); xn[0, 0, 0] = np.nan
    zn = to_nodal(g, xn)
    ctx.oracle(f'a NaN coefficient in slice 0 does not reach the other slices (synthesis) [{tag}]',
               bool(np.array_equal(zn[1:], Z[1:]) and np.isnan(zn[0]).any()), None)
    zz = Z.copy(); zz[1, 0, 0] = np.nan
    yn = to_modal(g, zz)
    ctx.oracle(f'a NaN grid value in slice 1 does not reach the other slices (analysis) [{tag}]',
               bool(np.array_equal(yn[[0, 2, 3]], Y[[0, 2, 3]]) and np.isnan(yn[1]).any()), None)
    # exactly-zero input -> exactly-zero output; purity
    ctx.oracle(f'zero spectrum -> exactly zero field, zero field -> exactly zero spectrum [{tag}]',
               bool((to_nodal(g, np.zeros((rows, cols))) == 0).all() and (to_modal(g, np.zeros((In, Jn))) == 0).all()), None)
    ctx.oracle(f'repeated calls are bit-identical [{tag}]', bool(np.array_equal(to_nodal(g, x), Z) and np.array_equal(to_modal(g, Z), Y)), None)
    ctx.count('forms:' + tag)


def np_tables(c, g):
    """Dumped tables in the stacked-row indexing of the modal array: f (In, rows), p (rows, Jn, cols), w (Jn)."""
    f, p, w = tables(g)
    if is_fast(c):
        if f.ndim == 3: f = np.transpose(f, (0, 2, 1)).reshape(f.shape[0], -1)
        p = np.repeat(p, 2, axis=0)
    return f, p, w


def r_big_numpy(ctx, a):
    """Sizes above the thresholds (M > 128: stacked Fourier path by DEFAULT; more than 256 / 512 / 1024 latitudes or
    longitudes).  The exact Q model would be too slow here: these cases are decided by an independent numpy (float64)
    evaluation of the dumped tables and by real-vs-fast equivalence through the re-indexing; non-dyadic data."""
    jax, jnp, sh, fourier, al = J_()
    c0 = a['cfg']; M, L, I, Jn = c0['M'], c0['L'], c0['I'], c0['J']
    rng = np.random.Generator(np.random.PCG64(a['seed']))
    cr = dict(c0, impl='real'); cf = dict(c0, impl='fast')          # fast with DEFAULT options
    gr = make_grid(cr); gf = make_grid(cf)
    s = gf.spherical_harmonics
    want_stacked = 2 * math.ceil(M / 256) <= math.ceil(M / 128)
    ctx.oracle('default stacked_fourier_transforms = (2 ceil(M/256) <= ceil(M/128))', bool(s.stacked_fourier_transforms) == want_stacked,
               {'M': M, 'stacked': bool(s.stacked_fourier_transforms)})
    ctx.count('big:default stacked' if s.stacked_fourier_transforms else 'big:default unstacked')
    K = 2 * M - 1
    mk = indep_mask(cr, (K, L))
    x = rng.standard_normal((3, K, L)) * mk          # non-dyadic data
    x[1] = 0
    # the last wavenumbers: top total wavenumber (zonal and sectoral), and the last one a J = L-1 rule resolves
    x[1, 0, L - 1] = 1.0; x[1, K - 1, L - 1] = -0.5; x[1, K - 2, max(L - 2, M - 1)] = 0.25
    res, D = model_resolves(ctx, cr)
    rows, cols = gf.modal_shape
    Ex = np.zeros((3, rows, cols)); Ex[:, 0, :L] = x[:, 0]; Ex[:, 2:2 * M, :L] = x[:, 1:]
    zr = to_nodal(gr, x); zf = to_nodal(gf, Ex)
    fr, pr, wr = np_tables(cr, gr); ff, pf, wf = np_tables(cf, gf)
    def np_synth(f, p, xx): return np.einsum('im,bmj->bij', f, np.einsum('mjl,bml->bmj', p, xx))
    def np_ana(f, p, w, zz): return np.einsum('mjl,bmj->bml', p, np.einsum('im,bij->bmj', f, zz * w))
    s_syn = float(np_synth(np.abs(fr), np.abs(pr), np.abs(x)).max()) + 1e-300
    ctx.oracle_close('to_nodal (reference) = numpy evaluation of the dumped tables [numpy reference, not the Q model]', zr, np_synth(fr, pr, x), scale=s_syn)
    ctx.oracle_close('to_nodal (fast, default options) = numpy evaluation of the dumped tables [numpy reference]', zf, np_synth(ff, pf, Ex), scale=s_syn)
    ctx.oracle_close('to_nodal: fast(E x) = pad(real(x)) on a large grid', zf[:, :I, :Jn], zr, scale=s_syn)
    ctx.oracle('to_nodal (fast): padding exactly zero', bool((zf[:, I:] == 0).all() and (zf[:, :, Jn:] == 0).all()), None)
    yr = to_modal(gr, zr); yf = to_modal(gf, zf)
    s_ana = float(np_ana(np.abs(fr), np.abs(pr), np.abs(wr), np.abs(zr)).max()) + 1e-300
    ctx.oracle_close('to_modal (reference) = numpy evaluation of the dumped tables [numpy reference]', yr, np_ana(fr, pr, wr, zr), scale=s_ana)
    ctx.oracle_close('to_modal (fast, default options) = numpy evaluation of the dumped tables [numpy reference]', yf, np_ana(ff, pf, wf, zf), scale=s_ana)
    Pyf = np.concatenate([yf[:, 0:1, :L], yf[:, 2:2 * M, :L]], axis=1)
    ctx.oracle_close('to_modal: Pi(fast(pad z)) = real(z) on a large grid', Pyf, yr, scale=s_ana)
    ctx.oracle('to_modal (fast): extra row and padding exactly zero',
               bool((yf[:, 1] == 0).all() and (yf[:, 2 * M:] == 0).all() and (yf[:, :, L:] == 0).all()), None)
    # table relation, bitwise, at this size
    phi = [0] + list(range(2, 2 * M))
    ctx.table_obligation('tables_related at a large size (bitwise): f, p, w', bool(
        np.array_equal(ff[:I][:, phi], fr) and (ff[:, 1] == 0).all() and np.array_equal(pf[phi][:, :Jn, :L], pr)
        and np.array_equal(wf[:Jn], wr) and (wf[Jn:] == 0).all() and (ff[I:] == 0).all() and (pf[:, Jn:] == 0).all()), None)
    # round trip where the grid resolves it (band-limited otherwise), integral identity
    Lb = band_limit(cr, D)
    if I >= 2 * M - 1 and Lb > 0:
        xb = x.copy(); xb[:, :, Lb:] = 0
        yb = to_modal(gr, to_nodal(gr, xb))
        lmax = min(L - 1, D - (Lb - 1))
        ctx.oracle_close('round trip on a large grid (band-limited to what the rule resolves)', yb[:, :, :lmax + 1], xb[:, :, :lmax + 1],
                         scale=float(np_ana(np.abs(fr), np.abs(pr), np.abs(wr), np.abs(to_nodal(gr, xb))).max()) + 1e-300)
    xi = x.copy(); xi[:, :, min(L, D + 1):] = 0
    ii = np.asarray(gr.integrate(jnp.asarray(to_nodal(gr, xi))))
    ctx.oracle_close('integral identity on a large grid', ii, math.sqrt(4 * math.pi) * xi[:, 0, 0],
                     scale=float(np.einsum('j,bij->b', np.abs(wr), np.abs(to_nodal(gr, xi))).max()) + 1e-300)
    # independent nodes / weights at this size
    lon, xn = indep_nodes(cr)
    ctx.oracle_close('latitude nodes at a large size = numpy leggauss / equal angles', np.asarray(gr.nodal_axes[1]), xn, scale=1.0, tol_rel=2.0 ** -40)
    ctx.count('big:%dx%d nodes, M=%d' % (I, Jn, M))


def r_contexts(ctx, a):
    """to_nodal / to_modal / integrate inside jax transformations: jit, vmap, eval_shape, jvp (= the transform of the
    tangent, they are linear) and vjp (finite and the adjoint: <T x, z> = <x, T^t z>)."""
    jax, jnp, sh, fourier, al = J_()
    c = a['cfg']; g = make_grid(c)
    rng = np.random.Generator(np.random.PCG64(a['seed']))
    rows, cols = g.modal_shape; In, Jn = g.nodal_shape
    tag = c.get('impl', 'real') + ('/mesh' if c.get('rev') else '') + ('/default' if is_fast(c) and c.get('base') is None else '')
    x = rng.standard_normal((3, rows, cols)); t = rng.standard_normal((3, rows, cols)); z = rng.standard_normal((3, In, Jn))
    xj, tj, zj = jnp.asarray(x), jnp.asarray(t), jnp.asarray(z)
    Z = to_nodal(g, x); Y = to_modal(g, z); Iz = np.asarray(g.integrate(zj))
    s_syn = synth_scale(c, g, np.abs(x) + np.abs(t)); s_ana = analysis_scale(c, g, z)
    s_int = float(np.einsum('j,bij->b', np.abs(tables(g)[2]), np.abs(z)).max() * g.radius ** 2) + 1e-300
    def same(name, got, want, scale): ctx.oracle_close(f'{name} [{tag}]', np.asarray(got), want, scale=scale, tol_rel=2.0 ** -40)
    same('jit(to_nodal) = to_nodal', jax.jit(g.to_nodal)(xj), Z, s_syn)
    same('jit(to_modal) = to_modal', jax.jit(g.to_modal)(zj), Y, s_ana)
    same('jit(integrate) = integrate', jax.jit(g.integrate)(zj), Iz, s_int)
    same('jit(to_modal . to_nodal) = composition', jax.jit(lambda v: g.to_modal(g.to_nodal(v)))(xj), to_modal(g, Z), analysis_scale(c, g, Z))
    es = jax.eval_shape(g.to_nodal, jax.ShapeDtypeStruct((3, rows, cols), jnp.float64))
    em = jax.eval_shape(g.to_modal, jax.ShapeDtypeStruct((3, In, Jn), jnp.float64))
    ctx.exact(f'eval_shape of to_nodal / to_modal [{tag}]', [list(es.shape), str(es.dtype), list(em.shape), str(em.dtype)],
              [[3, In, Jn], 'float64', [3, rows, cols], 'float64'])
    if not c.get('rev'):
        same('vmap(to_nodal) over the leading axis = batched call', jax.vmap(g.to_nodal)(xj), Z, s_syn)
        same('vmap(to_modal) over the leading axis = batched call', jax.vmap(g.to_modal)(zj), Y, s_ana)
        same('vmap(integrate) = batched call', jax.vmap(g.integrate)(zj), Iz, s_int)
    # forward mode: linear maps, so the tangent output is the map applied to the tangent
    pz, tz = jax.jvp(g.to_nodal, (xj,), (tj,))
    same('jvp(to_nodal): primal', pz, Z, s_syn); same('jvp(to_nodal): tangent = to_nodal(tangent)', tz, to_nodal(g, t), s_syn)
    py, ty = jax.jvp(g.to_modal, (zj,), (jnp.asarray(Z),))
    same('jvp(to_modal): primal', py, Y, s_ana); same('jvp(to_modal): tangent = to_modal(tangent)', ty, to_modal(g, Z), analysis_scale(c, g, Z))
    # reverse mode: finite, and the adjoint identity
    _, vj = jax.vjp(g.to_nodal, xj); (xbar,) = vj(zj); xbar = np.asarray(xbar)
    ctx.oracle(f'vjp(to_nodal) is finite [{tag}]', bool(np.isfinite(xbar).all()), None)
    lhs = float(np.sum(Z * z)); rhs = float(np.sum(x * xbar))
    ctx.oracle_close(f'adjoint identity <to_nodal x, z> = <x, to_nodal^T z> [{tag}]', np.asarray(lhs), np.asarray(rhs),
                     scale=float(np.sum(np.abs(Z) * np.abs(z))) * 8 + 1e-300)
    _, vj = jax.vjp(g.to_modal, zj); (zbar,) = vj(xj); zbar = np.asarray(zbar)
    ctx.oracle(f'vjp(to_modal) is finite [{tag}]', bool(np.isfinite(zbar).all()), None)
    ctx.oracle_close(f'adjoint identity <to_modal z, x> = <z, to_modal^T x> [{tag}]', np.asarray(float(np.sum(Y * x))), np.asarray(float(np.sum(z * zbar))),
                     scale=float(np.sum(np.abs(Y) * np.abs(x))) * 8 + 1e-300)
    gi = np.asarray(jax.grad(lambda v: jnp.sum(g.integrate(v)))(zj))
    wfull = np.broadcast_to(tables(g)[2] * g.radius ** 2, (3, In, Jn))
    same('grad(integrate) = quadrature weights * radius^2', gi, wfull, float(np.abs(wfull).max()) + 1e-300)
    # zero input in reverse mode (a where/division rewrite would give NaN only here)
    _, vj0 = jax.vjp(g.to_modal, jnp.zeros((3, In, Jn))); (zb0,) = vj0(jnp.zeros((3, rows, cols)))
    ctx.oracle(f'vjp at zero input with zero cotangent is exactly zero [{tag}]', bool((np.asarray(zb0) == 0).all()), None)
    ctx.count('contexts:' + tag)


def r_cache_integrity(ctx, a):
    """State across calls: module-level caches (lru_cache of the equiangular node functions) and per-grid cached
    tables must still hold what a fresh evaluation gives after everything this process has run, and grids of both
    implementations sharing one cached node table must not disturb each other (any order)."""
    jax, jnp, sh, fourier, al = J_()
    used = sorted(_state.get('used_nodes', set())) + [('equiangular', 6), ('equiangular_with_poles', 5)]
    # a deliberate interleaving on shared cached nodes: fast, reference, fast (padded), reference
    for sp, Jn in [('equiangular', 6), ('equiangular_with_poles', 5)]:
        ws = []
        for impl in ('fast', 'real', 'fast', 'real'):
            c = dict(M=2, L=3, I=5 + len(ws), J=Jn, spacing=sp, offset=0.0, radius=1.0, impl=impl)
            if impl == 'fast': c.update(base=4 if ws else 1, stacked=0, rev=0)
            g = make_grid(c); w = tables(g)[2]
            fn = al.equiangular_nodes if sp == 'equiangular' else al.equiangular_nodes_with_poles
            _, wfresh = fn.__wrapped__(Jn)
            ws.append(bool(np.array_equal(w[:Jn], (2 * np.pi / c['I']) * wfresh)))
        ctx.oracle(f'basis.w = (2 pi / I) * freshly computed latitude weights for grids sharing cached nodes ({sp})', all(ws), ws)
    bad = []
    for sp, Jn in used:
        if sp == 'gauss': continue
        fn = al.equiangular_nodes if sp == 'equiangular' else al.equiangular_nodes_with_poles
        xc, wc = fn(Jn); xf, wf_ = fn.__wrapped__(Jn)
        if not (np.array_equal(xc, xf) and np.array_equal(wc, wf_)): bad.append([sp, Jn])
    ctx.oracle('lru_cached latitude nodes / weights equal a fresh evaluation at the end of the run (cache never mutated)', not bad, bad)
    ctx.count('cache_integrity:node tables checked', len(used))


# ---------------------------------------------------------------------------
# associated_legendre.py inside the model (Model/Legendre.v + Gen/Legendre.v)
# ---------------------------------------------------------------------------
NODE_KINDS = ['gauss', 'equiangular', 'equiangular_with_poles', 'random']


def legendre_cases(rng, tier):
    """(n_m, n_l, nx, node kind): n_m < n_l, n_m = n_l, n_m = 1, n_l = 1, one node, the rejections."""
    out = []
    sizes = [(3, 5, 4), (4, 4, 5), (1, 6, 3), (1, 1, 2), (2, 3, 1), (2, 7, 6), (5, 6, 3), (6, 6, 2), (2, 2, 3)]
    if tier != 'quick':
        sizes += [(8, 9, 5), (3, 12, 7), (10, 10, 3), (1, 12, 12), (7, 8, 8)]
    for n, (n_m, n_l, nx) in enumerate(sizes):
        kinds = [NODE_KINDS[n % 4], NODE_KINDS[(n + 1 + n // 4) % 4]] if tier == 'quick' else NODE_KINDS
        for kind in dict.fromkeys(kinds):
            nxx = max(nx, 2) if kind == 'equiangular_with_poles' else nx
            out.append(dict(n_m=n_m, n_l=n_l, nx=nxx, nodes=kind, seed=int(rng.integers(0, 2 ** 31)), rhombus=int(n % 2 == 0)))
    # the weights solve of the two equiangular spacings
    for kind, nx in [('equiangular', 4), ('equiangular_with_poles', 5), ('equiangular', 1)] + (
            [] if tier == 'quick' else [('equiangular', 9), ('equiangular_with_poles', 8)]):
        out.append(dict(n_m=1, n_l=nx, nx=nx, nodes=kind, seed=0, rhombus=0, weights=1))
    # rejections: n_m > n_l (ValueError); n_m = 0 (IndexError at p[0, 0])
    for n_m, n_l in [(3, 2), (1, 0), (5, 4), (0, 2)]:
        out.append(dict(n_m=n_m, n_l=n_l, nx=3, nodes='random', seed=int(rng.integers(0, 2 ** 31)), rhombus=0))
    return out


def legendre_nodes(al, kind, nx, seed):
    """(nodes, weights or None, spacing index for exact_degree or None)"""
    if kind == 'gauss':
        x, w = al.gauss_legendre_nodes(nx); return np.asarray(x, dtype=np.float64), np.asarray(w, dtype=np.float64), 0
    if kind == 'equiangular':
        x, w = al.equiangular_nodes(nx); return np.asarray(x, dtype=np.float64).copy(), np.asarray(w, dtype=np.float64).copy(), 1
    if kind == 'equiangular_with_poles':
        x, w = al.equiangular_nodes_with_poles(nx); return np.asarray(x, dtype=np.float64).copy(), np.asarray(w, dtype=np.float64).copy(), 2
    r = np.random.Generator(np.random.PCG64(seed))
    x = r.uniform(-1.0, 1.0, size=nx)
    if nx >= 3: x[0] = 0.0; x[-1] = 1.0          # equator and a pole among the random nodes
    return x, None, None


def r_legendre(ctx, a):
    """associated_legendre.evaluate / _evaluate_rhombus / _compute_weights against Model/Legendre.v.  np.sqrt enters
    the exact model as a finite table: the model lists the radicands it applies sqrt to (generated from the source),
    the runner returns np.sqrt of their float64 values; the tables x, y = np.sqrt(1 - x*x) are inputs of the model."""
    jax, jnp, sh, fourier, al = J_()
    n_m, n_l, nx = a['n_m'], a['n_l'], a['nx']
    x, wq, sp = legendre_nodes(al, a['nodes'], nx, a['seed'])
    r = ctx.model.call(30, [n_m, n_l], [])
    accepts, defined, keys = bool(int(r[0])), bool(int(r[1])), r[2:]
    want = 'ok' if defined else ('ValueError' if not accepts else 'IndexError')
    try:
        p = al.evaluate(n_m, n_l, x); got = 'ok'
    except ValueError: got = 'ValueError'
    except IndexError: got = 'IndexError'
    ctx.exact('evaluate: accepted / ValueError (n_m > n_l) / IndexError (n_m = 0)', got, want)
    ctx.oracle('evaluate raises ValueError iff n_m > n_l', (got == 'ValueError') == (n_m > n_l), {'n_m': n_m, 'n_l': n_l, 'got': got})
    ctx.count('legendre:' + got); ctx.count('legendre nodes:' + a['nodes'])
    if got != 'ok' or want != 'ok':
        return
    ctx.exact('evaluate: output shape', list(p.shape), [n_m, nx, n_l])
    vals = [float(np.sqrt(np.float64(float(k)))) for k in keys]         # np.sqrt of the float64 radicands
    y = np.sqrt(1 - x * x)
    arrs = [x, y, keys, vals]
    mod = ctx.model.call(31, [n_m, n_l, nx], arrs)
    if mod is None or len(mod) != p.size:
        ctx.corr('evaluate (model returned nothing comparable)', p, mod); return
    modp = np.array(mod, dtype=object).reshape(p.shape)
    for m in range(n_m):
        ctx.corr(f'evaluate(n_m, n_l, x)[{m}] = model (recurrence in exact arithmetic on the same sqrt / node tables)',
                 p[m], list(modp[m].ravel()), scale=float(np.abs(p[m]).max()) + 1e-300)
    if a.get('rhombus'):
        rh = al._evaluate_rhombus(n_l=n_l, n_m=n_m, x=x, truncation='triangle')
        ctx.corr("_evaluate_rhombus(truncation='triangle') = model", rh, ctx.model.call(32, [n_l, n_m, nx], arrs),
                 scale=float(np.abs(rh).max()) + 1e-300)
        outside = (np.arange(n_l)[:, None] + np.arange(n_m)[None, :]) >= n_l
        ctx.oracle("_evaluate_rhombus(truncation='triangle') is exactly zero for m + k >= n_l", bool((rh[outside] == 0).all()), None)
    y2 = ctx.model.call(34, [], [x])
    if n_m >= 2 and n_l >= 2:
        # y as the implementation used it, recovered from p[1, :, 1] = -sqrt(1 + 1/2) * y / sqrt(2)
        yi = p[1, :, 1] * vals[0] / (-vals[1])
        ctx.corr('y^2 recovered from evaluate()[1, :, 1] = generated radicand 1 - x^2', yi * yi, y2, scale=1.0)
    # ---- the theorems' statements on the implementation
    L_ = np.arange(n_l)[None, :]; M_ = np.arange(n_m)[:, None]
    below = np.broadcast_to((L_ < M_)[:, None, :], p.shape)
    ctx.oracle('support: evaluate()[m, :, l] == 0 exactly for l < m', bool((p[below] == 0).all()), None)
    ctx.oracle_close('evaluate()[0, :, 0] = 1/sqrt(2)', p[0, :, 0], np.full(nx, 1 / math.sqrt(2)), scale=1.0, tol_rel=2.0 ** -50)
    if n_m >= 2:
        ctx.oracle_close('evaluate()[1, :, 1] = -sqrt(3)/2 * sqrt(1 - x^2) (sign of the diagonal recurrence: Condon-Shortley phase)',
                         p[1, :, 1], -math.sqrt(3.0) / 2 * np.sqrt(1 - x * x), scale=1.0, tol_rel=2.0 ** -44)
    if n_l >= 2:
        ctx.oracle_close('evaluate()[0, :, 1] = sqrt(3/2) x', p[0, :, 1], math.sqrt(1.5) * x, scale=2.0, tol_rel=2.0 ** -44)
    sgn = np.where(((L_ - M_) % 2) == 0, 1.0, -1.0)[:, None, :]
    pm = al.evaluate(n_m, n_l, -x)
    ctx.oracle_close('parity: evaluate(-x)[m, i, l] = (-1)^(l-m) evaluate(x)[m, i, l]', pm, sgn * p,
                     scale=float(np.abs(p).max()), tol_rel=2.0 ** -44)
    # three-term relation with the closed form eps(m, l)^2 = (l^2 - m^2) / (4 l^2 - 1)
    if n_l >= 2:
        lf = np.arange(n_l + 1, dtype=np.float64)[None, :]; mf = np.arange(n_m, dtype=np.float64)[:, None]
        eps = np.sqrt(np.maximum(lf * lf - mf * mf, 0.0) / (4 * lf * lf - 1))            # (n_m, n_l + 1)
        lhs = x[None, :, None] * p[:, :, :n_l - 1]
        prev = np.concatenate([np.zeros((n_m, nx, 1)), p[:, :, :n_l - 2]], axis=2)
        rhs = eps[:, None, 1:n_l] * p[:, :, 1:n_l] + eps[:, None, 0:n_l - 1] * prev
        inside = np.broadcast_to((L_[:, :n_l - 1] >= M_)[:, None, :], lhs.shape)
        ctx.oracle_close('three-term relation x p[m,l] = eps(m,l+1) p[m,l+1] + eps(m,l) p[m,l-1], eps^2 = (l^2-m^2)/(4l^2-1)',
                         np.where(inside, lhs, 0.0), np.where(inside, rhs, 0.0), scale=float(np.abs(p).max()) * 2)
    # orthonormality of the rows under the quadrature of the node family, for the degree sums the rule resolves
    if wq is not None and not (a['nodes'] == 'equiangular_with_poles' and nx < 2):
        D = int(ctx.model.call(4, [sp, 1, nx, 1, 1])[1])
        G = np.einsum('j,mjl,mjk->mlk', wq, p, p); S = np.einsum('j,mjl,mjk->mlk', np.abs(wq), np.abs(p), np.abs(p))
        sel = ((L_.T + L_) <= D)[None] & (L_.T >= M_[:, :, None]) & (L_[None] >= M_[:, :, None])
        E = np.abs(G - np.eye(n_l)[None])
        ok = bool((E[sel] <= 2.0 ** -36 * np.maximum(S[sel], 1.0)).all())
        ctx.oracle(f'rows of evaluate() are orthonormal under the {a["nodes"]} rule for l + l\' <= D', ok,
                   {'D': D, 'max_err': float(E[sel].max()) if sel.any() else 0.0})
        ctx.count('legendre orthonormal pairs checked', int(sel.sum()))
    # ---- _compute_weights: the solve result is an input of the model, the normalisation is modelled
    if a.get('weights'):
        leg = al.evaluate(n_m=1, n_l=nx, x=x)[0].T
        z = np.zeros_like(x); z[0] = 1
        ws = np.linalg.solve(leg, z)
        wi = al._compute_weights(x)
        out = ctx.model.call(33, [nx], arrs + [ws])
        ctx.corr('_compute_weights: residual of the linear system at the numpy solution (model matrix) = 0', np.zeros(nx), out[:nx],
                 scale=float((np.abs(leg) @ np.abs(ws)).max()) + 1.0)
        ctx.corr('_compute_weights = normalisation (model) of the solve result', wi, out[nx:], scale=float(np.abs(wi).max()) + 1e-300)
        ctx.oracle_close('_compute_weights: weights sum to 2', np.asarray(wi.sum()), np.asarray(2.0), scale=float(np.abs(wi).sum()))
        ctx.count('legendre:weights')


def r_legendre_poly(ctx, a):
    """Coefficient-list model (leg_q, leg_gram_poly of Model/Legendre.v) against the implementation's table at generic
    nodes: p[m,:,l] = y^m * q_{m,l}(x) with q evaluated by numpy.polynomial, q recovered from the table by
    interpolation, closed forms for m = 0, l <= 3, and the node-free functional statement Int(gram poly) = delta."""
    jax, jnp, sh, fourier, al = J_()
    from numpy.polynomial import polynomial as P
    n_m, n_l = a['n_m'], a['n_l']
    rng = np.random.Generator(np.random.PCG64(a['seed']))
    nx = n_l + 2
    x = np.sort(np.cos(np.pi * (np.arange(nx) + 0.5) / nx) * 0.95 + rng.uniform(-0.01, 0.01, nx))      # generic, no pole
    y = np.sqrt(1 - x * x)
    p = al.evaluate(n_m, n_l, x)
    r = ctx.model.call(30, [n_m, n_l], [])
    keys = r[2:]; vals = [float(np.sqrt(np.float64(float(k)))) for k in keys]
    sqrts = [keys, vals]
    cf = {}
    for m in range(n_m):
        for l in range(m, n_l):
            q = ctx.model.call(35, [m, l], sqrts); cf[(m, l)] = q
            ctx.exact(f'degree of q[{m},{l}] <= l - m', bool(len(q) <= l - m + 1), True)
            qf = np.array([float(c) for c in q])
            # the implementation's table = y^m * numpy.polynomial evaluation of the model's coefficient list
            ctx.corr(f'evaluate()[{m}, :, {l}] = y^m * polyval(x, q_model)', p[m, :, l], list(y ** m * P.polyval(x, qf)),
                     scale=float(np.abs(y ** m * P.polyval(x, np.abs(qf))).max()) + 1e-300)
            # ... and the coefficients recovered from the table by interpolation on the first l-m+1 nodes
            k = l - m + 1
            idx = np.linspace(0, nx - 1, k).round().astype(int)
            fit = P.polyfit(x[idx], p[m, idx, l] / y[idx] ** m, k - 1)
            ctx.corr(f'coefficients of evaluate()[{m}, :, {l}] / y^m (interpolated) = q_model', fit, q + [0] * (k - len(q)),
                     scale=float(np.abs(qf).max()) * 2.0 ** (2 * k), tol_rel=2.0 ** -30)
    closed = {0: [math.sqrt(0.5)], 1: [0.0, math.sqrt(1.5)], 2: [-math.sqrt(0.625), 0.0, 3 * math.sqrt(0.625)],
              3: [0.0, -3 * math.sqrt(0.875), 0.0, 5 * math.sqrt(0.875)]}
    for l in range(min(4, n_l)):
        ctx.corr(f'q_model[0,{l}] = closed form of the normalised Legendre polynomial', np.array(closed[l]), cf[(0, l)], scale=8.0)
    # node-free statement: Int over [-1,1] (moments 2/(n+1), 0) of the Gram polynomial = delta
    worst = 0.0; ok = True
    for m in range(n_m):
        for l in range(m, n_l):
            for l2 in range(l, n_l):
                g = ctx.model.call(36, [m, l, l2], sqrts)
                ctx.exact('degree of the Gram polynomial <= l + l\'', bool(len(g) <= l + l2 + 1), True)
                val = sum(float(c) * (2.0 / (n + 1)) for n, c in enumerate(g) if n % 2 == 0)
                sc = sum(abs(float(c)) * (2.0 / (n + 1)) for n, c in enumerate(g) if n % 2 == 0) + 1.0
                e = abs(val - (1.0 if l == l2 else 0.0)); worst = max(worst, e / sc); ok = ok and e <= 2.0 ** -36 * sc
    ctx.table_obligation('H_functional: integral over [-1,1] of leg_gram_poly(m,l,l\') = delta(l,l\') (coefficient lists only, no nodes)',
                         ok, {'worst_rel': worst})
    ctx.count('legendre_poly')


RUNNERS = {'legendre_poly': r_legendre_poly, 'legendre': r_legendre, 'big_numpy': r_big_numpy, 'contexts': r_contexts, 'cache_integrity': r_cache_integrity, 'rejects': r_rejects, 'forms': r_forms, 'mesh': r_mesh, 'fourier_closed_form': r_fourier_closed_form, 'factory': r_factory, 'layout': r_layout, 'tables': r_tables, 'transforms': r_transforms}
