"""C12 - physical results do not depend on the non-dimensionalisation scale.

(i) Oracle (the property's own statement on the implementation): one physical
    problem given in SI (constants, radius, state, orography, reference
    temperature, time step, filter time scales) is set up under DEFAULT_SCALE and
    under >= 2 random `Scale`s (every base scale log-uniform over 6 decades),
    every scale-dependent input being constructed through the scale; tendencies,
    resolvents, steps, forcings, initial states and radiation are converted back
    to SI and compared (relative 1e-9 of the field magnitude).
(ii) AST scan of the call graph (table obligation): every function of
    dinosaur/ whose default argument is a module-level constant that was
    non-dimensionalised under a fixed scale must get that argument explicitly at
    every call site inside dinosaur/, and such constants (and the module-level
    default scale) must not be used inside function bodies.
(iii) Correspondence: Scale.nondimensionalize/dimensionalize and the constants of
    the *Specs objects vs the model's `factor` (exact rationals), and the
    homogeneity of the column operators (model executed on rescaled inputs,
    implementation on rescaled inputs)."""
import ast, os, re
import numpy as np
from fractions import Fraction
from harness import util, dyn

THEOREMS = ['C12_factor_homomorphism', 'C12_welldim_homogeneous', 'C12_scale_independence',
            'C12_columns_homogeneous', 'C12_nodal_terms_homogeneous', 'C12_moist_and_vertical_terms_homogeneous',
            'C12_step_covariant', 'C12_trajectory_covariant', 'C12_column_relations',
            'C12_column_hypotheses_discharged', 'C12_column_steps_covariant', 'C12_modal_tendencies_covariant',
            'C12_held_suarez_homogeneous', 'C12_held_suarez_nondim_commutes', 'C12_held_suarez_R',
            'C12_log_pressure_shift', 'C12_p_over_p0_invariant', 'C12_p_over_p0_invariant_R',
            'C12_hyps_satisfiable', 'C12_column_hyps_satisfiable', 'C12_held_suarez_hyps_satisfiable',
            'C12_modal_hyps_satisfiable', 'C12_concrete_operators_homogeneous', 'C12_whole_state_tendencies_covariant',
            'C12_whole_state_step_covariant_partial', 'C12_whole_state_hyps_satisfiable',
            'C12_whole_state_inverse_covariant', 'C12_whole_state_reads_range', 'C12_whole_state_space',
            'C12_whole_state_step_covariant', 'C12_whole_state_trajectory_covariant', 'C12_whole_state_inverse_hyps_satisfiable',
            'C12_whole_state_tracers_covariant',
            'C12_model_is_source']
LEVEL = 'proof'
LEVEL_TEXT = ('Coq theorems for every field and all non-zero scales: factor is a group homomorphism Z^4 -> F*; EVERY '
              'dimensionally well-typed expression of field operations is scale-covariant (hence re-dimensionalised '
              'results under two scales coincide); covariance of the sigma-column operators and of ALL nodal '
              'primitive-equation terms of the dry, moist and cloud classes (incl. the T_ref-nonuniform branch, which '
              'is scale-invariant); every IMEX integrator commutes with an affine change of scale for the step sizes '
              'whose implicit solves are defined, and for the implicit column model of the primitive equations the '
              'hypotheses on implicit terms and resolvent are PROVED (rescaled inverse = inverse of the rescaled matrix; '
              'uses functional extensionality), only the explicit terms stay abstract; Held-Suarez rates / equilibrium '
              'temperature / nodal tendencies covariant over ordered fields with positive temperature scale, p/p0 '
              'invariant, and Held-Suarez on non-dimensionalised inputs = non-dimensionalisation of the SI values for EVERY '
              'power / log function (also over R with Rpower, ln, exp, from the log surface pressure); explicit and '
              'implicit tendencies of all four classes assembled over abstract horizontal operators are covariant; gradients kill the log-pressure shift and exp(lnps)/p0 is invariant. Call-graph bypasses '
              '(hard-coded constants) are outside the algebra and are decided on the implementation: same SI problem '
              'under >= 4 scales, all equation classes, plus AST scans of scale-dependent default arguments, of module '
              'constants used in bodies and of numeric literal defaults of dimensional parameters.')
LEVEL_NOTE = ('whole-state round: for the executable whole-state model (explicit_terms / implicit_terms / implicit_inverse as '
              'compositions of the concrete transforms) the operator hypotheses are theorems and tendencies, tracers, the implicit '
              'solve, every integrator and trajectories are proved scale-covariant on the index range (inverse tables two-sided: '
              'table obligation); the model is tied to the code by correspondence on a tiny real grid under a non-default scale. '
              'Otherwise: theorems are about expression programs and the column/step models; the implementation as a whole '
              '(spectral transforms, JAX) is tied to them by the multi-scale oracle and the call-site scan, not by proof')
TECHNIQUE = 'Coq proof (dimension typing => scale covariance) + multi-scale differential oracle on the implementation + AST call-site scan'

TOL = 1e-9

# Parameters whose NAME says they carry a physical dimension: a non-zero numeric literal default for one of them is a
# number in some fixed unit system and cannot follow the scale.
DIMENSIONAL_PARAM = (r'^(tau|dt|eta|step_size|.*time.*|.*period.*|radius|.*pressure.*|p0|p1|t0|u0|tref|.*temperature.*|gamma|'
                     r'delta_t|.*gravity.*|.*gas_constant.*|.*heat_capacity.*|angular_velocity|omega|k[fas]|minT|maxT|dTy|dThz|'
                     r'.*irradiance.*|.*viscosity.*|.*diffusiv.*|nu|.*velocity.*|.*height.*|.*orography.*|.*densit.*|.*potential.*)$')
# Documented exceptions present in the reviewed tree (module, function, parameter, literal):
#  * dinosaur/time_integration.py:508 exponential_step_filter(tau=0.010938) and
#    dinosaur/time_integration.py:539 exponential_leapfrog_step_filter(tau=0.010938): a time in units of DEFAULT_SCALE
#    (about 75 s); it is a user parameter, but shallow_water.default_filters (dinosaur/shallow_water.py:334) relies on
#    it, so default_filters(grid, dt) is scale dependent (same SI dt: filtered sums 16.50 / 9.85 under DEFAULT / SI).
#    Reported in the evidence notes, not claimed as a violation.
#  * dinosaur/vertical_interpolation.py:273 HybridCoordinates.to_approx_sigma_coords(surface_pressure=1013.25): hPa, the
#    fixed unit of the hybrid-coordinate tables (a_boundaries are stored in hPa); independent of the model scale.
ALLOWED_LITERAL_DEFAULTS = {
    ('time_integration', 'exponential_step_filter', 'tau', '0.010938'),
    ('time_integration', 'exponential_leapfrog_step_filter', 'tau', '0.010938'),
    ('vertical_interpolation', 'to_approx_sigma_coords', 'surface_pressure', '1013.25'),
}
# Rounding noise is not scale-invariant: the linear algebra of a step (np.linalg.inv of the implicit matrix, spectral
# transforms) mixes fields whose non-dimensional magnitudes differ by many decades under an exotic scale, so a field
# can pick up LEAK * (largest non-dimensional magnitude in that run) of noise.  This absolute allowance (converted to
# SI with the field's own factor) is added to the relative tolerance; it is ~1e-10 relative for well-scaled runs.
LEAK = 1e-13


class Out(dict):
    """SI results of one run, with a per-field absolute rounding allowance."""
    def __init__(self, *a, **k):
        super().__init__(*a, **k); self.atol = {}

    def merge(self, other):
        self.update(other); self.atol.update(getattr(other, 'atol', {})); return self


def _gmax(*trees):
    return max([dyn.tree_maxabs(t) for t in trees] + [0.0])


def _fac(specs, unit):
    return abs(float(_D(specs, 1.0, unit)))

# dimension vectors (length, time, mass, temperature) and the pint unit used for conversion
DIMS = {
    'meter': (1, 0, 0, 0), 'second': (0, 1, 0, 0), 'kilogram': (0, 0, 1, 0), 'kelvin': (0, 0, 0, 1),
    '1/second': (0, -1, 0, 0), '1/second**2': (0, -2, 0, 0), 'meter/second': (1, -1, 0, 0),
    'meter/second**2': (1, -2, 0, 0), 'meter**2/second**2': (2, -2, 0, 0),
    'joule/kilogram/kelvin': (2, -2, 0, -1), 'pascal': (-1, -2, 1, 0), 'kilogram/meter**3': (-3, 0, 1, 0),
    'watt/meter**2': (0, -3, 1, 0), 'kelvin/meter': (-1, 0, 0, 1), 'kelvin/second': (0, -1, 0, 1),
    'dimensionless': (0, 0, 0, 0), '1/day': (0, -1, 0, 0), 'hour': (0, 1, 0, 0), 'kilometer': (1, 0, 0, 0),
    'hectopascal': (-1, -2, 1, 0), 'meter**2': (2, 0, 0, 0), 'newton': (1, -2, 1, 0), 'joule/kilogram': (2, -2, 0, 0),
}


def M():
    m = dyn.mods()
    if 'units' not in m:
        m['units'] = m['scales'].units
    return m


def _scale(v):
    m = M(); u = m['units']
    if v == 'default':
        return m['scales'].DEFAULT_SCALE
    return m['scales'].Scale(v[0] * u.m, v[1] * u.s, v[2] * u.kg, v[3] * u.degK)


def _scale_vec(v):
    """base-unit magnitudes (m, s, kg, K) of a scale."""
    m = M()
    if v == 'default':
        s = m['scales'].DEFAULT_SCALE
        return [float(s['[length]'].magnitude), float(s['[time]'].magnitude), float(s['[mass]'].magnitude), float(s['[temperature]'].magnitude)]
    return [float(x) for x in v]


def _rand_scale(rng):
    lo = [2.0, 0.0, -3.0, -3.0]
    return [float('%.4g' % 10.0 ** (l + 6.0 * rng.random())) for l in lo]


def _scales(ctx, n):
    """n random scales plus plain SI (1 m, 1 s, 1 kg, 1 K): under SI a raw SI magnitude that bypasses the scale is
    'right', under every other scale it is wrong - so a bypass cannot hide behind factors that happen to be tiny."""
    SI = [1.0, 1.0, 1.0, 1.0]
    rng = ctx.rng
    # one base unit extreme; the time unit only by 1e+-3 here: with a 1e-6 time unit the implicit matrix of the
    # solves is so badly scaled that np.linalg.inv itself loses 7 digits (rounding, not a scale dependence) - the
    # 1e+-6 time units are exercised by pe_extreme / sw_extreme / dfi step counts / units / grid_routes
    ax = [v for i, v in enumerate(_axis_scales(rng)) if i not in (6, 7)]; ax = ax[int(rng.integers(0, len(ax)))]
    if n <= 1:
        # two non-default scales: (log-uniform | one unit extreme) and (plain SI | tiny units), alternating at random
        return [_rand_scale(rng) if rng.integers(0, 2) else ax, SI if rng.integers(0, 2) else TINY_UNITS]
    # plain SI metres/seconds (non-dimensional radius 6.37e6), tiny units (every non-dimensional number huge), one base
    # unit extreme, and n-1 log-uniform scales: an absolute threshold on ANY dimensional quantity is crossed by one of them
    return [_rand_scale(rng) for _ in range(n - 1)] + [ax, SI, TINY_UNITS]


TINY_UNITS = [1.3e-3, 7.0e-3, 1.9e-6, 2.3e-3]          # millimetres, milliseconds, milligrams, millikelvin (non-dyadic)


# time units of 1 s (SI), 1 min, 1 h, 3 h, 1 day (DEFAULT_SCALE, time unit 1/(2 Omega), is always added by the runners)
TIME_UNIT_SCALES = [[1.0, 1.0, 1.0, 1.0], [1.0, 60.0, 1.0, 1.0], [1.0, 3600.0, 1.0, 1.0], [1.0, 10800.0, 1.0, 1.0],
                    [1.0, 86400.0, 1.0, 1.0], [6.37122e6, 13713.6587, 1.0, 1.0]]


def _axis_scales(rng, n=None):
    """scales in which exactly one base unit (length, time, mass, temperature) is extreme: 1e+-3, 1e+-6 times a
    moderate unit system (1000 km, 1e4 s, 1 kg, 1 K); `n` = size of a random subset (always containing the large and
    small temperature units)."""
    base = [1.1e6, 0.9e4, 1.3, 0.7]
    out = []
    for ax in range(4):
        for e in (3, -3, 6, -6):
            v = list(base); v[ax] = base[ax] * 10.0 ** e; out.append(v)
    if n is not None and n < len(out):
        keep = {12, 14, 13}      # temperature 1e3, 1e6, 1e-3
        rest = [i for i in range(len(out)) if i not in keep]
        keep |= set(int(i) for i in rng.choice(rest, size=max(n - len(keep), 0), replace=False))
        out = [out[i] for i in sorted(keep)]
    return out


ROUTES = ('plain', 'with_wavenumbers', 'construct', 'T21', 'TL31')


def _mkgrid(radius=None, route='plain', **kw):
    """a grid built through one of the public construction routes users have: the dataclass constructor (dyn.grid),
    Grid.with_wavenumbers, Grid.construct, or a named factory; `radius` is always passed on."""
    m = dyn.mods(); sh = m['sh']
    if route == 'plain':
        return dyn.grid(radius=radius, **kw)
    impl = sh.FastSphericalHarmonics if kw.get('impl') == 'fast' else sh.RealSphericalHarmonics
    if route == 'with_wavenumbers':
        return sh.Grid.with_wavenumbers(longitude_wavenumbers=kw.get('M', 4), dealiasing=kw.get('dealiasing', 'quadratic'),
                                        spherical_harmonics_impl=impl, radius=radius)
    if route == 'construct':
        return sh.Grid.construct(max_wavenumber=kw.get('max_wavenumber', 3), gaussian_nodes=kw.get('gaussian_nodes', 3),
                                 spherical_harmonics_impl=impl, radius=radius)
    if route in ('T21', 'TL31'):
        return getattr(sh.Grid, route)(spherical_harmonics_impl=impl, radius=radius)
    raise ValueError(route)


def generate(ctx):
    rng = ctx.rng
    quick = ctx.tier == 'quick'
    ns = 2 if quick else 3
    seed = lambda: int(rng.integers(0, 2 ** 31))
    yield 'ast_scan', {}
    for _ in range(2 if quick else 8):
        yield 'units', {'scale': _rand_scale(rng), 'seed': seed()}
    yield 'units', {'scale': 'default', 'seed': seed()}
    for K in ([1, 3] if quick else [1, 2, 3, 5, 8]):
        yield 'sigma_homog', {'K': K, 'scale': _rand_scale(rng), 'seed': seed()}
    for K in ([1, 3] if quick else [1, 2, 3, 4, 6]):
        yield 'nodal_homog', {'K': K, 'scale': _rand_scale(rng), 'seed': seed(), 'va': int(rng.integers(0, 2))}
    for K in ([1, 3] if quick else [1, 2, 3, 4, 6]):
        yield 'moist_homog', {'K': K, 'scale': _rand_scale(rng), 'seed': seed(), 'va': int(rng.integers(0, 2)), 'sparse': int(rng.integers(0, 2)),
                              'uniform_tref': int(K == 3)}
        yield 'column_homog', {'K': K, 'scale': _rand_scale(rng), 'seed': seed(), 'mean_mode': int(rng.integers(0, 2))}
    for _ in range(1 if quick else 4):
        yield 'column_matrix', {'scales': _scales(ctx, ns), 'seed': seed(), 'K': 3}
    for _ in range(3 if quick else 12):
        yield 'expr', {'scale': _rand_scale(rng), 'seed': seed()}
    # whole-model oracles
    if quick:
        pes = [('dry', ['imex_rk_sil3', 'crank_nicolson_rk2'], ['exponential', 'diffusion'], 2, 'all'),
               ('moist', ['crank_nicolson_rk3'], ['exponential'], 2, 'split'),
               ('cloud', ['backward_forward_euler'], ['diffusion'], 1, 'split'),
               ('time', ['crank_nicolson_rk4'], [], 1, 'split')]
    else:
        pes = []
        for kind in ('dry', 'time', 'moist', 'cloud'):
            for i, integ in enumerate(dyn.INTEGRATORS):
                pes.append((kind, [integ], [['exponential', 'diffusion'], [], ['exponential'], ['diffusion']][i % 4], 3, 'all'))
    for kind, integs, filt, nsteps, method in pes:
        yield 'pe', {'kind': kind, 'integrators': integs, 'filters': filt, 'nsteps': nsteps, 'inverse_method': method,
                     'scales': _scales(ctx, ns), 'seed': seed(), 'K': 3}
    # whole-state executable model (Model/PrimEqFull.v, C12_whole_state_tendencies_covariant): same tiny SI problem under two
    # scales; the exact model is evaluated at the scales listed in 'model_at' (cost: K=2 ~15 s per explicit_terms call)
    wplan = [(2, [1])] if quick else [(2, [0, 1]), (3, [1]), (2, [1])]
    for K, model_at in wplan:
        yield 'whole_state_scales', {'K': K, 'seed': seed(), 'model_at': model_at, 'nsteps': 2, 'ntr': 1,
                                     'integrators': ['crank_nicolson_rk2', 'backward_forward_euler'] if quick else list(dyn.INTEGRATORS),
                                     'scales': [_dyadic_scale(rng), _dyadic_scale(rng)] if K == 2 else ['default', _dyadic_scale(rng)],
                                     'grid': {'route': 'plain', 'M': 3, 'L': 4, 'I': 8, 'J': 4}}
    # nearly isothermal reference profiles x one base unit at a time pushed to 1e+-3 / 1e+-6 (absolute thresholds on
    # non-dimensional quantities are only visible when ONE unit is extreme and the quantity is close to the threshold)
    ranges = [0.8, 1e-3] if quick else [1.0, 0.8, 0.05, 1e-3, 1e-6]
    for i, rg in enumerate(ranges):
        for kind in (['dry', 'moist'][i % 2:i % 2 + 1] if quick else ['dry', 'moist']):
            yield 'pe_extreme', {'kind': kind, 'tref_range': rg, 'seed': seed(), 'K': 3, 'scales': _axis_scales(rng, None if not quick else 8)}
    yield 'sw_extreme', {'seed': seed(), 'scales': _axis_scales(rng, None if not quick else 8)}
    # multi-step digital filter initialisation: SI windows that are whole multiples of the SI step
    # (window, unit, step, unit): given the way a user writes them (pint quantities in hours / minutes); the conversion
    # to seconds inside nondimensionalize rounds differently from a value already given in seconds - both are checked
    pairs = [[6, 'hour', 20, 'minute'], [6, 'hour', 30, 'minute'], [3, 'hour', 10, 'minute'], [1, 'hour', 7.5, 'minute']]
    # step counts / weights are compared for every pair; the (costly) filtered run only for the pairs listed in 'run'
    yield 'dfi', {'eq': 'shallow_water', 'pairs': pairs, 'run': [0, 1] if quick else [0, 1, 2, 3], 'scales': TIME_UNIT_SCALES, 'count_scales': [TINY_UNITS, [1.0, 1e-3, 1.0, 1.0], [1.0, 7.3e6, 1.0, 1.0], _rand_scale(rng)], 'seed': seed()}
    yield 'dfi', {'eq': 'dry', 'pairs': pairs, 'run': [3] if quick else [0, 1, 2, 3], 'scales': TIME_UNIT_SCALES, 'count_scales': [TINY_UNITS, [1.0, 1e-3, 1.0, 1.0], [1.0, 7.3e6, 1.0, 1.0], _rand_scale(rng)], 'seed': seed()}
    # winds <-> vorticity/divergence through the library's jitted helpers, several scales in one process, both orders
    for i_ in range(1 if quick else 3):
        yield 'winds', {'scales': _scales(ctx, 2), 'seed': seed(), 'grid': [None, {'impl': 'fast', 'base_shape_multiple': 4}, {'impl': 'fast'}][i_]}
    yield 'threshold_scan', {}
    # options, layouts, sizes and structured data (checklist of the robustness review); one scale pair each
    FAST = {'impl': 'fast'}; PAD4 = {'impl': 'fast', 'base_shape_multiple': 4}; PAD8 = {'impl': 'fast', 'base_shape_multiple': 8}
    TALLL = {'M': 4, 'L': 7, 'I': 12, 'J': 8}; MINLON = {'M': 5, 'L': 6, 'I': 8, 'J': 8}
    variants = [dict(kind='dry', K=3, grid=PAD4, eqkw={'vertical_matmul_method': 'sparse'}, integrators=['crank_nicolson_rk2'], filters=['exponential', 'diffusion']),
                dict(kind='moist', K=2, eqkw={'vertical_advection': 'upwind'}, integrators=['backward_forward_euler'], structure='zero_tracers'),
                dict(kind='dry', K=1, eqkw={'include_vertical_advection': False}, integrators=['imex_rk_sil3'], structure='rest')]
    if not quick:
        variants += [dict(kind='dry', K=3, grid=FAST, integrators=['imex_rk_sil3'], filters=['diffusion']),
                     dict(kind='cloud', K=3, grid=PAD8, eqkw={'vertical_matmul_method': 'dense'}, integrators=['crank_nicolson_rk3']),
                     dict(kind='dry', K=3, grid=TALLL, integrators=['crank_nicolson_rk2'], structure='top_mode'),
                     dict(kind='time', K=2, grid=MINLON, integrators=['crank_nicolson_rk4'], structure='equal_ends'),
                     dict(kind='moist', K=3, eqkw={'vertical_matmul_method': 'sparse', 'include_vertical_advection': False}, integrators=['imex_rk_sil3'], structure='uniform_tref'),
                     dict(kind='dry', K=3, eqkw={'vertical_advection': 'upwind', 'vertical_matmul_method': 'sparse'}, integrators=['backward_forward_euler'], structure='integers'),
                     dict(kind='dry', K=3, grid={'M': 4, 'L': 5, 'I': 64, 'J': 6}, integrators=['crank_nicolson_rk2']),
                     dict(kind='dry', K=3, grid={'M': 4, 'L': 5, 'I': 12, 'J': 48}, integrators=['crank_nicolson_rk2'])]
    variants += [dict(kind='dry', K=3, grid={'route': 'construct'}, integrators=['imex_rk_sil3'], filters=['diffusion']),
                 dict(kind='moist', K=2, grid={'route': 'with_wavenumbers', 'M': 4}, integrators=['crank_nicolson_rk2'])]
    if not quick:
        variants += [dict(kind='dry', K=2, grid={'route': 'with_wavenumbers', 'M': 5, 'dealiasing': 'linear'}, integrators=['crank_nicolson_rk2']),
                     dict(kind='cloud', K=2, grid={'route': 'construct', 'max_wavenumber': 4, 'gaussian_nodes': 4, 'impl': 'fast'}, integrators=['backward_forward_euler']),
                     dict(kind='dry', K=2, grid={'route': 'TL31'}, integrators=['backward_forward_euler'])]
    variants += [dict(kind='dry', K=4, levels='near_equidistant_round', eqkw={'vertical_matmul_method': 'sparse'}, integrators=['crank_nicolson_rk2']),
                 dict(kind='moist', K=3, levels='near_ends', integrators=['backward_forward_euler'])]
    if not quick:
        variants += [dict(kind='dry', K=5, levels='near_equidistant_jitter', integrators=['imex_rk_sil3']),
                     dict(kind='cloud', K=4, levels='near_equidistant_f32', integrators=['crank_nicolson_rk3']),
                     dict(kind='dry', K=3, levels='near_ends', eqkw={'vertical_matmul_method': 'sparse'}, integrators=['crank_nicolson_rk2']),
                     dict(kind='dry', K=2, grid={'M': 4, 'L': 5, 'I': 8, 'J': 300}, integrators=['backward_forward_euler']),
                     dict(kind='dry', K=2, grid={'M': 4, 'L': 5, 'I': 8, 'J': 520, 'impl': 'fast'}, integrators=['backward_forward_euler'])]
    yield 'grid_routes', {'scales': _scales(ctx, 2), 'seed': seed(), 'routes': list(ROUTES)}
    yield 'grid_routes', {'scales': _scales(ctx, 1), 'seed': seed(), 'routes': ['plain'], 'grid': {'M': 4, 'L': 5, 'I': 8, 'J': 300 if quick else 1030}}
    yield 'shallow_water', {'integrators': ['crank_nicolson_rk2', 'leapfrog'], 'nsteps': 1, 'scales': _scales(ctx, 1), 'seed': seed(), 'grid': {'route': 'construct'}}
    yield 'winds', {'scales': _scales(ctx, 2), 'seed': seed(), 'grid': {'route': 'with_wavenumbers', 'M': 4}}
    if not quick:
        yield 'winds', {'scales': _scales(ctx, 2), 'seed': seed(), 'grid': {'route': 'T21'}}
        yield 'sw_extreme', {'seed': seed(), 'scales': _scales(ctx, 1), 'grid': {'route': 'T21'}, 'alpha': 0.5}
    for v in variants:
        yield 'pe', dict({'filters': [], 'nsteps': 1, 'inverse_method': 'all', 'scales': _scales(ctx, 1), 'seed': seed()}, **v)
    yield 'sw_extreme', {'seed': seed(), 'scales': _scales(ctx, 1), 'grid': PAD4, 'alpha': 0.7}
    if not quick:
        yield 'sw_extreme', {'seed': seed(), 'scales': _scales(ctx, 1), 'grid': FAST, 'alpha': 0.3}
        yield 'pe_extreme', {'kind': 'dry', 'tref_range': 0.8, 'seed': seed(), 'K': 3, 'scales': _axis_scales(rng, None), 'grid': PAD4}
    for ratio, order, cutoff in ([(1e-3, 1, 0.0), (1e3, 3, 0.5)] if quick else [(1e-3, 1, 0.0), (1e3, 3, 0.5), (1.0, 18, 0.0), (30.0, 2, 0.9), (1e-2, 4, 0.3)]):
        yield 'filters', {'scales': _scales(ctx, 1), 'seed': seed(), 'tau_over_dt': ratio, 'order': order, 'cutoff': cutoff}
    for integ in (['imex_rk_sil3'] if quick else ['imex_rk_sil3', 'crank_nicolson_rk3', 'backward_forward_euler']):
        yield 'held_suarez', {'integrator': integ, 'nsteps': 2, 'scales': _scales(ctx, ns), 'seed': seed()}
    for integs in ([['crank_nicolson_rk2', 'leapfrog']] if quick else [[i, 'leapfrog'] for i in dyn.INTEGRATORS]):
        yield 'shallow_water', {'integrators': integs, 'nsteps': 2, 'scales': _scales(ctx, ns), 'seed': seed()}
    for _ in range(1 if quick else 3):
        yield 'filters', {'scales': _scales(ctx, ns), 'seed': seed()}
        yield 'helpers', {'scales': _scales(ctx, ns), 'seed': seed()}
        yield 'init_states', {'scales': _scales(ctx, ns), 'seed': seed()}
        yield 'radiation', {'scales': _scales(ctx, ns), 'seed': seed()}


# ---------------------------------------------------------------------------
# comparison helpers
# ---------------------------------------------------------------------------
def _cmp(ctx, clause, results, labels, floor=None):
    """results: list (one per scale, first = reference/DEFAULT_SCALE) of dicts name -> SI array."""
    ref = results[0]
    for lab, res in zip(labels[1:], results[1:]):
        for k in ref:
            a = np.asarray(res[k], dtype=np.float64); b = np.asarray(ref[k], dtype=np.float64)
            sc = float(np.max(np.abs(b))) if b.size else 0.0
            if floor and k in floor: sc = max(sc, floor[k])
            if k.endswith('log_surface_pressure(other modes)'):
                # rounding noise of the transform of the (large) mean log-pressure must not become the yardstick
                mk = k.replace('(other modes)', '(mean mode)[log Pa]')
                if mk in ref: sc = max(sc, 1e-3 * float(np.max(np.abs(ref[mk]))))
            if a.shape != b.shape:
                ctx.oracle(clause, False, {'field': k, 'scale': lab, 'shapes': [list(a.shape), list(b.shape)]}); continue
            if not (np.all(np.isfinite(a)) and np.all(np.isfinite(b))):
                ctx.oracle(clause, False, {'field': k, 'scale': lab, 'detail': 'non-finite result'}); continue
            err = float(np.max(np.abs(a - b))) if b.size else 0.0
            # a field that vanishes identically in the reference must vanish (to rounding of the other fields)
            tol = (TOL * sc if sc > 0 else 0.0) + getattr(res, 'atol', {}).get(k, 0.0) + getattr(ref, 'atol', {}).get(k, 0.0)
            ok = err <= tol
            det = None
            if not ok:
                i = np.unravel_index(int(np.argmax(np.abs(a - b))), a.shape) if a.ndim else ()
                det = {'field': k, 'scale': lab, 'index': [int(t) for t in i], 'value': float(a[i]), 'reference(DEFAULT_SCALE)': float(b[i]),
                       'rel_err': err / sc if sc else float('inf'), 'tol_rel': TOL}
            ctx.oracle(clause, ok, det)


_SV = {}          # id(specs) -> (specs, base-unit magnitudes of its scale), registered by the *_setup functions


def _register(specs, sv):
    _SV[id(specs)] = (specs, _scale_vec(sv))
    return specs


def _factor_py(specs, unit):
    """(conversion of `unit` to SI base units, scale factor of its dimension): computed here from the scale vector and
    pint's unit table, NOT with Scale.dimensionalize / nondimensionalize of the implementation under test."""
    u = M()['units']
    q = u(unit) if isinstance(unit, str) else (1.0 * unit)
    ent = _SV.get(id(specs))
    if ent is None or ent[0] is not specs:
        sc = specs.scale
        vec = [float(sc[k].to_base_units().magnitude) for k in ('[length]', '[time]', '[mass]', '[temperature]')]
    else:
        vec = ent[1]
    conv = float(q.to_base_units().magnitude)
    d = _pint_dim(q)
    fac = 1.0
    for v, e in zip(vec, d):
        fac *= float(v) ** e
    return conv, fac


def _D(specs, x, unit):
    """non-dimensional value -> magnitude in `unit` (independent of the implementation's Scale methods)."""
    conv, fac = _factor_py(specs, unit)
    return np.asarray(x, dtype=np.float64) * (fac / conv)


def _ND(specs, x, unit):
    """magnitude in `unit` -> non-dimensional value (independent of the implementation's Scale methods)."""
    conv, fac = _factor_py(specs, unit)
    return np.asarray(x, dtype=np.float64) * (conv / fac)


def _c00(g):
    return float(np.asarray(g.to_modal(np.ones(g.nodal_shape)))[0, 0])


def _lnps_si(specs, g, lnps):
    """modal log(ps / (1 Pa)) from modal log(non-dimensional ps)."""
    x = np.array(lnps, dtype=np.float64)
    pfac = float(_D(specs, 1.0, 'pascal'))
    x[..., 0, 0] += np.log(pfac) * _c00(g)
    return x


def _put(out, specs, name, x, unit, gmax):
    out[name] = _D(specs, x, unit) if unit else np.asarray(x, dtype=np.float64)
    out.atol[name] = LEAK * gmax * (_fac(specs, unit) if unit else 1.0)


def _pe_state_si(specs, g, st, prefix, gmax=0.0):
    out = Out()
    _put(out, specs, prefix + 'vorticity[1/s]', st.vorticity, '1/second', gmax)
    _put(out, specs, prefix + 'divergence[1/s]', st.divergence, '1/second', gmax)
    _put(out, specs, prefix + 'temperature_variation[K]', st.temperature_variation, 'kelvin', gmax)
    l = _lnps_si(specs, g, st.log_surface_pressure)
    out[prefix + 'log_surface_pressure(mean mode)[log Pa]'] = l[..., :1, :1]
    l0 = l.copy(); l0[..., 0, 0] = 0.0
    out[prefix + 'log_surface_pressure(other modes)'] = l0
    out.atol[prefix + 'log_surface_pressure(mean mode)[log Pa]'] = LEAK * gmax
    out.atol[prefix + 'log_surface_pressure(other modes)'] = LEAK * gmax
    for t, v in st.tracers.items():
        _put(out, specs, prefix + 'tracer ' + t, v, None, gmax)
    if hasattr(st, 'sim_time'):
        _put(out, specs, prefix + 'sim_time[s]', st.sim_time, 'second', 0.0)
    return out


def _pe_tend_si(specs, td, prefix, gmax=0.0):
    out = Out()
    _put(out, specs, prefix + 'vorticity[1/s^2]', td.vorticity, '1/second**2', gmax)
    _put(out, specs, prefix + 'divergence[1/s^2]', td.divergence, '1/second**2', gmax)
    _put(out, specs, prefix + 'temperature_variation[K/s]', td.temperature_variation, 'kelvin/second', gmax)
    _put(out, specs, prefix + 'log_surface_pressure[1/s]', td.log_surface_pressure, '1/second', gmax)
    for t, v in td.tracers.items():
        _put(out, specs, prefix + 'tracer ' + t + '[1/s]', v, '1/second', gmax)
    if hasattr(td, 'sim_time'):
        _put(out, specs, prefix + 'sim_time[s/s]', td.sim_time, None, 0.0)
    return out



def _lnps_noise_atol(out, specs, g, eq, st):
    """The modal log-pressure of the SAME physical state carries, under each scale, the rounding noise of the transform of its
    (large, scale-dependent) mean: ~ LEAK |lnps_00| in every other coefficient (see the `(other modes)` yardstick in _cmp).
    implicit_terms turns that into  |lam| R T_ref LEAK |lnps_00|  of divergence tendency - an input-conditioning floor, not a
    scale dependence of the code (false alarm of the thorough tier, TL31: 6e-19 1/s^2 against a field maximum of 2.7e-10; DESIGN 9.7)."""
    try:
        lam = float(np.max(np.abs(np.asarray(g.laplacian_eigenvalues))))
        l00 = float(np.max(np.abs(np.asarray(st.log_surface_pressure)[..., 0, 0])))
        tref = float(np.max(np.abs(np.asarray(eq.reference_temperature))))
        rr = float(eq.physics_specs.R)
        k = 'divergence[1/s^2]'
        out.atol[k] = out.atol.get(k, 0.0) + LEAK * l00 * lam * rr * tref * _fac(specs, '1/second**2')
    except Exception:
        pass
    return out

def _si_constants(rng):
    """SI constants of the physical problem: the defaults of scales.py, perturbed (so that a constant that does
    not come from the specs is visible even when it is dimensionless)."""
    m = M(); sc = m['scales']
    f = lambda: float(1.0 + 0.2 * (rng.random() - 0.5))
    return dict(radius_si=sc.RADIUS * f(), angular_velocity_si=sc.ANGULAR_VELOCITY * f(),
                gravity_acceleration_si=sc.GRAVITY_ACCELERATION * f(), ideal_gas_constant_si=sc.IDEAL_GAS_CONSTANT * f(),
                water_vapor_gas_constant_si=sc.IDEAL_GAS_CONSTANT_H20 * f(),
                water_vapor_isobaric_heat_capacity_si=sc.WATER_VAPOR_CP * f(), kappa_si=sc.KAPPA * f())


def _filters_si(names, g, specs, dt_si, tau_factor=(8.0, 20.0)):
    m = M(); ti = m['ti']
    dt = float(_ND(specs, dt_si, 'second'))
    out = []
    for n in names:
        if n == 'exponential':
            out.append(ti.exponential_step_filter(g, dt, tau=float(_ND(specs, tau_factor[0] * dt_si, 'second')), order=3, cutoff=0.2))
        elif n == 'diffusion':
            out.append(ti.horizontal_diffusion_step_filter(g, dt, tau=float(_ND(specs, tau_factor[1] * dt_si, 'second')), order=1))
    return out


def _to_jnp(tree):
    m = M()
    return m['jax'].tree_util.tree_map(lambda q: m['jnp'].asarray(q, dtype=np.float64), tree)


# ---------------------------------------------------------------------------
# primitive equations (dry / with time / moist / cloud)
# ---------------------------------------------------------------------------
def _levels(rng, K, mode):
    """sigma boundaries: uneven (default), or near-coincidence sets that the constructor ACCEPTS: nearly equidistant
    (rounded to 7 digits / 2^-22 jitter / float32-accumulated) and end points only isclose to 0 and 1."""
    if mode in (None, 'uneven'):
        return util.uneven_boundaries(rng, K)
    b = np.arange(K + 1, dtype=np.float64) / K
    if mode == 'near_equidistant_round':
        b = np.round(b, 7)
    elif mode == 'near_equidistant_jitter':
        b[1:-1] += 2.0 ** -22 * rng.integers(-1, 2, size=max(K - 1, 0))
    elif mode == 'near_equidistant_f32':
        b = np.concatenate([[0.0], np.cumsum(np.full(K, np.float32(1.0 / K), dtype=np.float32)).astype(np.float64)])
        b[-1] = min(b[-1], 1.000009) if abs(b[-1] - 1) < 1e-5 else 1.0
    elif mode == 'near_ends':
        b = util.uneven_boundaries(rng, K); b[0] = 8e-9; b[-1] = [1.0000001, 0.999998][int(rng.integers(0, 2))]
    return b


def _pe_problem(rng, kind, K, tref_range=None, gridkw=None, structure=None, levels=None):
    gridkw = dict(gridkw or {})
    g0 = _mkgrid(**gridkw)
    p = dict(b=_levels(rng, K, levels), consts=_si_constants(rng),
             vort=dyn.modal_field(rng, g0, (K,), 2, True, 2e-5), div=dyn.modal_field(rng, g0, (K,), 2, True, 4e-6),
             temp=dyn.modal_field(rng, g0, (K,), 2, False, 3.0),
             ps=1e5 * (1.0 + 0.03 * np.asarray(g0.to_nodal(dyn.modal_field(rng, g0, (1,), 2, False, 1.0)))),
             oro=dyn.modal_field(rng, g0, (), 2, False, 300.0),
             tref=(250.0 + rng.integers(-300, 301, size=K).astype(np.float64) / 10.0) if tref_range is None else
                  (float(rng.integers(230, 290)) + tref_range * np.sort(rng.integers(0, 65, size=K).astype(np.float64) / 64.0 + np.arange(K))[::-1] / K),
             tracers={t: dyn.modal_field(rng, g0, (K,), 2, False, 0.004) for t in dyn.PE_TRACERS[kind]},
             dt=float(rng.integers(3000, 15000)) / 10.0)
    for t in p['tracers']:
        p['tracers'][t][:, 0, 0] += 0.02
    p['gridkw'] = gridkw
    # structured (non-random) data
    if structure == 'rest':                       # atmosphere exactly at rest, flat surface pressure
        p['vort'] *= 0; p['div'] *= 0; p['ps'] = np.full_like(p['ps'], 1.0e5)
    elif structure == 'zero_tracers':
        for t in p['tracers']: p['tracers'][t] *= 0
    elif structure == 'uniform_tref':             # plateau: all reference temperatures equal
        p['tref'] = np.full(K, float(p['tref'][0]))
    elif structure == 'equal_ends':               # equal end values, different interior
        p['tref'][-1] = p['tref'][0]
    elif structure == 'top_mode':                 # one coefficient at the highest retained total wavenumber
        mm, ll = g0.modal_mesh; lt = g0.total_wavenumbers - 2
        sel = np.asarray(g0.mask) & (ll == lt) & (mm == np.min(np.where(np.asarray(g0.mask) & (ll == lt), mm, 10 ** 6)))
        for k_, amp in (('vort', 2e-5), ('div', 4e-6), ('temp', 3.0)):
            p[k_] = np.where(sel, amp, 0.0) * np.ones_like(p[k_])
    elif structure == 'integers':                 # integer-valued SI data
        p['temp'] = np.round(p['temp']); p['tref'] = np.round(p['tref']); p['oro'] = np.round(p['oro']); p['dt'] = float(round(p['dt'], -2))
    return p


def _pe_setup(sv, p, kind, **eqkw):
    m = M(); pe = m['pe']; jnp = m['jnp']
    specs = _register(pe.PrimitiveEquationsSpecs.from_si(scale=_scale(sv), **p['consts']), sv)
    g = _mkgrid(radius=specs.radius, **p.get('gridkw', {})); c = dyn.coords(g, p['b'])
    if eqkw.get('vertical_advection') == 'upwind':
        eqkw = dict(eqkw, vertical_advection=m['sc'].upwind_vertical_advection)
    kw = dict(vorticity=_ND(specs, p['vort'], '1/second'), divergence=_ND(specs, p['div'], '1/second'),
              temperature_variation=_ND(specs, p['temp'], 'kelvin'),
              log_surface_pressure=g.to_modal(jnp.log(jnp.asarray(_ND(specs, p['ps'], 'pascal')))),
              tracers={t: v for t, v in p['tracers'].items()})
    st = pe.State(**kw) if kind == 'dry' else pe.StateWithTime(sim_time=0.0, **kw)
    eq = dyn.pe_equation(kind, c, specs, _ND(specs, p['tref'], 'kelvin'), _ND(specs, p['oro'], 'meter'), **eqkw)
    return specs, g, c, _to_jnp(st), eq


def r_pe(ctx, a):
    m = M(); ti = m['ti']
    rng = np.random.Generator(np.random.PCG64(a['seed']))
    kind = a['kind']; p = _pe_problem(rng, kind, a['K'], gridkw=a.get('grid'), structure=a.get('structure'), levels=a.get('levels'))
    eqkw = dict(a.get('eqkw') or {})
    labels = ['default'] + a['scales']
    R = {k: [] for k in ('explicit', 'implicit', 'inverse', 'steps')}
    first = None
    for sv in labels:
        specs, g, c, st, eq = _pe_setup(sv, p, kind, **eqkw)
        dt = float(_ND(specs, p['dt'], 'second'))
        ex = eq.explicit_terms(st); im = eq.implicit_terms(st)
        if first is None: first = (eq, st, dyn.tree_to_np(ex))
        R['explicit'].append(_pe_tend_si(specs, ex, '', _gmax(ex)))
        R['implicit'].append(_lnps_noise_atol(_pe_tend_si(specs, im, '', _gmax(im)), specs, g, eq, st))
        inv = Out(); g_st = _gmax(st)
        for eta_f in (0.5, -0.25):
            if kind == 'dry':
                for meth in (['split', 'stacked', 'blockwise'] if a['inverse_method'] == 'all' else [a['inverse_method']]):
                    inv.merge(_pe_state_si(specs, g, eq.implicit_inverse(st, eta_f * dt, method=meth), f'eta={eta_f}dt {meth}: ', g_st))
            else:
                inv.merge(_pe_state_si(specs, g, eq.implicit_inverse(st, eta_f * dt), f'eta={eta_f}dt: ', g_st))
        R['inverse'].append(inv)
        steps = Out()
        for integ in a['integrators']:
            step = ti.step_with_filters(dyn.integrator(integ, eq, dt), _filters_si(a['filters'], g, specs, p['dt']))
            s = st
            for n in range(a['nsteps']):
                s = step(s)
                steps.merge(_pe_state_si(specs, g, s, f'{integ} step {n + 1}: ', (n + 1) * _gmax(s, st)))
        R['steps'].append(steps)
    ctx.count('class:' + kind)
    for k_ in ('grid', 'eqkw', 'structure', 'levels'):
        if a.get(k_): ctx.count(f'pe:{k_}={a[k_]}')
    # purity: the first equation object, re-evaluated after all the other scales were used, gives bit-identical results
    again = dyn.tree_to_np(first[0].explicit_terms(first[1]))
    ctx.oracle('explicit_terms of an equation object is unchanged (bitwise) after other scales were used in the process',
               all(np.array_equal(x, y) for x, y in zip(dyn.tree_leaves(again), dyn.tree_leaves(first[2]))), None)
    _cmp(ctx, f'primitive equations ({kind}): explicit_terms equal in SI under every scale', R['explicit'], labels)
    _cmp(ctx, f'primitive equations ({kind}): implicit_terms equal in SI under every scale', R['implicit'], labels)
    _cmp(ctx, f'primitive equations ({kind}): implicit_inverse equal in SI under every scale', R['inverse'], labels)
    _cmp(ctx, f'primitive equations ({kind}): filtered time steps equal in SI under every scale', R['steps'], labels)


# ---------------------------------------------------------------------------
# Held-Suarez forcing
# ---------------------------------------------------------------------------
def r_held_suarez(ctx, a):
    m = M(); ti = m['ti']; u = m['units']
    from dinosaur import held_suarez
    rng = np.random.Generator(np.random.PCG64(a['seed']))
    K = 4
    p = _pe_problem(rng, 'dry', K)
    p['b'] = np.array([0.0, 0.3, 0.6, 0.85, 1.0])
    v = dict(p0=float(rng.integers(900, 1100)) * 100.0, sigma_b=float(rng.integers(5, 9)) / 10.0, kf=float(rng.integers(1, 4)), ka=float(rng.integers(30, 50)),
             ks=float(rng.integers(3, 6)), minT=float(rng.integers(190, 230)), maxT=float(rng.integers(300, 330)), dTy=float(rng.integers(40, 70)),
             dThz=float(rng.integers(5, 15)))
    # the same parameters written in base-like units and in other units (hPa, 1/hour, degC, millikelvin)
    hs_kws = [dict(p0=v['p0'] * u.pascal, sigma_b=v['sigma_b'], kf=1 / (v['kf'] * u.day), ka=1 / (v['ka'] * u.day), ks=1 / (v['ks'] * u.day),
                   minT=v['minT'] * u.degK, maxT=v['maxT'] * u.degK, dTy=v['dTy'] * u.degK, dThz=v['dThz'] * u.degK),
              dict(p0=(v['p0'] / 100.0) * u.hPa, sigma_b=v['sigma_b'], kf=1 / (24 * v['kf'] * u.hour), ka=1 / (86400.0 * v['ka'] * u.s), ks=1 / (1440 * v['ks'] * u.minute),
                   minT=u.Quantity(v['minT'] - 273.15, u.degC), maxT=u.Quantity(v['maxT'] - 273.15, u.degC), dTy=1000 * v['dTy'] * u.millikelvin,
                   dThz=v['dThz'] * u.degK)]
    labels = ['default'] + a['scales'] + ['default']
    Rf, Rs = [], []
    for n_, sv in enumerate(labels):
        specs, g, c, st, eq = _pe_setup(sv, p, 'dry')
        tref = _ND(specs, p['tref'], 'kelvin')
        hs = held_suarez.HeldSuarezForcing(c, specs, tref, **hs_kws[n_ % 2])
        fo = hs.explicit_terms(st)
        out = _pe_tend_si(specs, fo, 'forcing ', _gmax(fo))
        out['equilibrium_temperature[K]'] = _D(specs, hs.equilibrium_temperature(np.exp(np.asarray(g.to_nodal(st.log_surface_pressure)))), 'kelvin')
        out['kt[1/s]'] = _D(specs, hs.kt(), '1/second'); out['kv[1/s]'] = _D(specs, hs.kv(), '1/second')
        if n_ == 0:
            # the same formulas recomputed here in SI with numpy (independent reference)
            sig = np.asarray(c.vertical.centers)[:, None, None]; lat = np.arcsin(np.asarray(g.nodal_mesh[1]))[None]
            cut = np.maximum(0, (sig - v['sigma_b']) / (1 - v['sigma_b']))
            kt_ref = 1 / (86400 * v['ka']) + (1 / (86400 * v['ks']) - 1 / (86400 * v['ka'])) * cut * np.cos(lat) ** 4
            ps_si = _D(specs, np.exp(np.asarray(g.to_nodal(st.log_surface_pressure))), 'pascal')      # the pressure field the forcing was given
            pp = sig * ps_si / v['p0']
            kap = float(p['consts']['kappa_si'].magnitude)
            teq_ref = np.maximum(v['minT'], pp ** kap * (v['maxT'] - v['dTy'] * np.sin(lat) ** 2 - v['dThz'] * np.log(pp) * np.cos(lat) ** 2))
            ctx.oracle_close('Held-Suarez kt = the published formula evaluated in SI', out['kt[1/s]'], np.broadcast_to(kt_ref, out['kt[1/s]'].shape), tol_rel=1e-9)
            ctx.oracle_close('Held-Suarez equilibrium temperature = the published formula evaluated in SI', out['equilibrium_temperature[K]'], teq_ref, tol_rel=1e-9)
        Rf.append(out)
        dt = float(_ND(specs, p['dt'], 'second'))
        comp = ti.compose_equations([eq, hs])
        step = ti.step_with_filters(dyn.integrator(a['integrator'], comp, dt), _filters_si(['exponential'], g, specs, p['dt']))
        s = st; steps = Out()
        for n in range(a['nsteps']):
            s = step(s)
            steps.merge(_pe_state_si(specs, g, s, f'step {n + 1}: ', (n + 1) * _gmax(s, st)))
        Rs.append(steps)
    _cmp(ctx, 'Held-Suarez forcing: explicit_terms / equilibrium temperature equal in SI under every scale', Rf, labels)
    _cmp(ctx, 'Held-Suarez forced primitive equations: time steps equal in SI under every scale', Rs, labels)


# ---------------------------------------------------------------------------
# shallow water
# ---------------------------------------------------------------------------
def r_shallow_water(ctx, a):
    m = M(); sw = m['sw']; ti = m['ti']; u = m['units']; sc = m['scales']
    rng = np.random.Generator(np.random.PCG64(a['seed']))
    gkw_ = dict(a.get('grid') or {}); g0 = _mkgrid(**gkw_); K = 2
    f = lambda: float(1.0 + 0.2 * (rng.random() - 0.5))
    consts = dict(densities=np.array([1000.0, 1000.0 + float(rng.integers(50, 400))]) * u.kg / u.m ** 3, radius_si=sc.RADIUS * f(),
                  angular_velocity_si=sc.ANGULAR_VELOCITY * f(), gravity_acceleration_si=sc.GRAVITY_ACCELERATION * f())
    p = dict(vort=dyn.modal_field(rng, g0, (K,), 2, True, 2e-5), div=dyn.modal_field(rng, g0, (K,), 2, True, 4e-6),
             pot=dyn.modal_field(rng, g0, (K,), 2, False, 60.0), oro=dyn.modal_field(rng, g0, (), 2, False, 150.0),
             ref=np.array([3.0e4, 2.0e4]) * f(), dt=float(rng.integers(300, 1200)))
    labels = ['default'] + a['scales']
    R = {k: [] for k in ('explicit', 'implicit', 'inverse', 'steps')}
    def tend(specs, t, pre=''):
        out = Out(); gm = _gmax(t)
        _put(out, specs, pre + 'vorticity[1/s^2]', t.vorticity, '1/second**2', gm); _put(out, specs, pre + 'divergence[1/s^2]', t.divergence, '1/second**2', gm)
        _put(out, specs, pre + 'potential[m^2/s^3]', t.potential, u.m ** 2 / u.s ** 3, gm)
        return out
    def stat(specs, t, pre='', gm=0.0):
        out = Out()
        _put(out, specs, pre + 'vorticity[1/s]', t.vorticity, '1/second', gm); _put(out, specs, pre + 'divergence[1/s]', t.divergence, '1/second', gm)
        _put(out, specs, pre + 'potential[m^2/s^2]', t.potential, 'meter**2/second**2', gm)
        return out
    for sv in labels:
        specs = _register(sw.ShallowWaterSpecs.from_si(scale=_scale(sv), **consts), sv)
        g = _mkgrid(radius=specs.radius, **gkw_); c = dyn.layer_coords(g, K)
        st = _to_jnp(sw.State(vorticity=_ND(specs, p['vort'], '1/second'), divergence=_ND(specs, p['div'], '1/second'),
                              potential=_ND(specs, p['pot'], 'meter**2/second**2')))
        oro = _ND(specs, p['oro'], 'meter**2/second**2'); ref = _ND(specs, p['ref'], 'meter**2/second**2')
        eq = sw.ShallowWaterEquations(c, specs, oro, ref)
        dt = float(_ND(specs, p['dt'], 'second'))
        R['explicit'].append(tend(specs, eq.explicit_terms(st))); R['implicit'].append(tend(specs, eq.implicit_terms(st)))
        R['inverse'].append(stat(specs, eq.implicit_inverse(st, 0.5 * dt), '', _gmax(st)))
        steps = Out()
        for integ in a['integrators']:
            if integ == 'leapfrog':
                filt = [ti.exponential_leapfrog_step_filter(g, dt, tau=float(_ND(specs, 9.0 * p['dt'], 'second')), order=3, cutoff=0.2),
                        ti.robert_asselin_leapfrog_filter(0.05)]
                step = ti.step_with_filters(sw.shallow_water_leapfrog_step(c, dt, specs, ref, oro), filt)
                s = (st, st)
                for n in range(a['nsteps']):
                    s = step(s); steps.merge(stat(specs, s[1], f'leapfrog step {n + 1}: ', (n + 1) * _gmax(s[1], st)))
            else:
                step = ti.step_with_filters(dyn.integrator(integ, eq, dt), _filters_si(['exponential', 'diffusion'], g, specs, p['dt']))
                s = st
                for n in range(a['nsteps']):
                    s = step(s); steps.merge(stat(specs, s, f'{integ} step {n + 1}: ', (n + 1) * _gmax(s, st)))
        R['steps'].append(steps)
    for k, nm in (('explicit', 'explicit_terms'), ('implicit', 'implicit_terms'), ('inverse', 'implicit_inverse'), ('steps', 'filtered time steps')):
        _cmp(ctx, f'shallow water: {nm} equal in SI under every scale', R[k], labels)


# ---------------------------------------------------------------------------
# filters applied directly
# ---------------------------------------------------------------------------
def r_filters(ctx, a):
    m = M(); ti = m['ti']; filtering = m['filtering']; pe = m['pe']; u = m['units']
    rng = np.random.Generator(np.random.PCG64(a['seed']))
    g0 = _mkgrid()
    x = {'u': dyn.modal_field(rng, g0, (2,), 3, False, 1.0), 'v': dyn.modal_field(rng, g0, (1,), 3, False, 1.0)}
    dt_si = float(rng.integers(200, 2000)); tau_si = float(a.get('tau_over_dt') or rng.integers(2, 30)) * dt_si
    order_e = int(a.get('order', 2)); cutoff = float(a.get('cutoff', 0.1))
    nu_dt = float(rng.integers(1, 50)) * 1e9         # nu*dt in m^2 (order 1) / m^4 (order 2)
    labels = ['default'] + a['scales']; R = []
    consts = _si_constants(rng)
    for sv in labels:
        specs = _register(pe.PrimitiveEquationsSpecs.from_si(scale=_scale(sv), **consts), sv)
        g = _mkgrid(radius=specs.radius)
        dt = float(_ND(specs, dt_si, 'second')); tau = float(_ND(specs, tau_si, 'second'))
        xs = _to_jnp(x); out = {}
        def put(nm, y):
            for k, v in y.items(): out[f'{nm}[{k}]'] = np.asarray(v, dtype=np.float64)
        put('exponential_step_filter', ti.exponential_step_filter(g, dt, tau=tau, order=order_e, cutoff=cutoff)(xs, xs))
        put('exponential_leapfrog_step_filter', ti.exponential_leapfrog_step_filter(g, dt, tau=tau, order=order_e, cutoff=cutoff)((xs, xs), (xs, xs))[1])
        for order in (1, 2):
            put(f'horizontal_diffusion_step_filter order={order}', ti.horizontal_diffusion_step_filter(g, dt, tau=tau, order=order)(xs, xs))
            sc = float(_ND(specs, nu_dt * (1e6 if order == 2 else 1.0), u.m ** (2 * order)))
            put(f'horizontal_diffusion_filter order={order}', filtering.horizontal_diffusion_filter(g, sc, order)(xs))
        out['laplacian_eigenvalues[1/m^2]'] = _D(specs, g.laplacian_eigenvalues, u.m ** -2)
        R.append(out)
    _cmp(ctx, 'step filters with SI time scales act identically under every scale', R, labels)
    # independent reference: the documented damping factors evaluated in SI with numpy
    ll = np.arange(g0.total_wavenumbers, dtype=np.float64); kk = ll / ll.max()
    fac_e = np.exp((kk > cutoff) * (-(dt_si / tau_si) * ((kk - cutoff) / (1 - cutoff)) ** (2 * order_e)))
    ctx.oracle_close('exponential_step_filter = exp(-(dt/tau) ((k-c)/(1-c))^(2p)) evaluated in SI', R[0]['exponential_step_filter[u]'], x['u'] * fac_e,
                     scale=1.0, tol_rel=1e-9)
    lam_max = ll.max() * (ll.max() + 1)
    fac_d = np.exp(-(dt_si / tau_si) * (ll * (ll + 1) / lam_max))
    ctx.oracle_close('horizontal_diffusion_step_filter order 1 = exp(-(dt/tau) l(l+1)/lmax(lmax+1)) evaluated in SI',
                     R[0]['horizontal_diffusion_step_filter order=1[u]'], x['u'] * fac_d, scale=1.0, tol_rel=1e-9)
    ctx.count('filters:tau/dt=%g order=%d cutoff=%g' % (tau_si / dt_si, order_e, cutoff))


# ---------------------------------------------------------------------------
# helper functions with scale-dependent default arguments, called the way a user must call them
# ---------------------------------------------------------------------------
def r_helpers(ctx, a):
    m = M(); pe = m['pe']; jnp = m['jnp']
    rng = np.random.Generator(np.random.PCG64(a['seed']))
    K = 3; p = _pe_problem(rng, 'moist', K)
    labels = ['default'] + a['scales']; R = []
    for sv in labels:
        specs, g, c, st, eq = _pe_setup(sv, p, 'moist')
        v = c.vertical; tref = np.asarray(_ND(specs, p['tref'], 'kelvin')); out = {}
        oro = jnp.asarray(_ND(specs, p['oro'], 'meter'))
        out['get_geopotential[m^2/s^2]'] = _D(specs, pe.get_geopotential(st.temperature_variation, tref, oro, v, specs.g, specs.R), 'meter**2/second**2')
        Tn = g.to_nodal(st.temperature_variation) + tref[:, None, None]; qn = g.to_nodal(st.tracers['specific_humidity'])
        out['get_geopotential_with_moisture[m^2/s^2]'] = _D(specs, pe.get_geopotential_with_moisture(
            Tn, qn, g.to_nodal(oro), v, specs.g, specs.R, specs.R_vapor), 'meter**2/second**2')
        for meth in ('dense', 'sparse'):
            out[f'get_geopotential_diff {meth}[m^2/s^2]'] = _D(specs, pe.get_geopotential_diff(st.temperature_variation, v, specs.R, method=meth), 'meter**2/second**2')
            out[f'get_temperature_implicit {meth}[K/s]'] = _D(specs, pe.get_temperature_implicit(st.divergence, v, tref, specs.kappa, method=meth), 'kelvin/second')
        out['get_geopotential_weights[J/kg/K]'] = _D(specs, pe.get_geopotential_weights(v, specs.R), 'joule/kilogram/kelvin')
        out['get_temperature_implicit_weights[K]'] = _D(specs, pe.get_temperature_implicit_weights(v, tref, specs.kappa), 'kelvin')
        out['coriolis_parameter[1/s]'] = _D(specs, eq.coriolis_parameter, '1/second')
        out['orography_tendency[1/s^2]'] = _D(specs, eq.orography_tendency(), '1/second**2')
        out['Cp[J/kg/K]'] = _D(specs, specs.Cp, 'joule/kilogram/kelvin')
        R.append(out)
    _cmp(ctx, 'geopotential / implicit-weight helper functions equal in SI under every scale', R, labels)


# ---------------------------------------------------------------------------
# initial states
# ---------------------------------------------------------------------------
def r_init_states(ctx, a):
    m = M(); pe = m['pe']; u = m['units']; jax = m['jax']
    from dinosaur import primitive_equations_states as pes, xarray_utils
    rng = np.random.Generator(np.random.PCG64(a['seed']))
    g0 = _mkgrid(); K = 3; b = util.uneven_boundaries(rng, K)
    consts = _si_constants(rng)
    height = 500.0 * np.asarray(g0.to_nodal(dyn.modal_field(rng, g0, (), 2, False, 1.0)))
    v = dict(tref=float(rng.integers(260, 300)), p0=float(rng.integers(950, 1050)) * 100.0, p1=float(rng.integers(1, 30)) * 100.0, u0=float(rng.integers(20, 50)),
             t0=float(rng.integers(270, 300)), delta_t=float(rng.integers(40, 56)) * 1e4, gamma=float(rng.integers(3, 8)), up=float(rng.integers(1, 6)))
    # every argument non-default; written once in base-like units and once in other units / as strings
    kw_isos = [dict(tref=v['tref'] * u.degK, p0=v['p0'] * u.pascal, p1=v['p1'] * u.pascal, surface_height=height * u.m),
               dict(tref='%r kelvin' % v['tref'], p0='%r hPa' % (v['p0'] / 100.0), p1=(v['p1'] / 100.0) * u.hPa, surface_height=(height / 1000.0) * u.km)]
    cen = np.sort(np.asarray(dyn.coords(g0, b).vertical.centers)); mids = [(cen[0] + cen[1]) / 2, (cen[1] + cen[2]) / 2]
    # tropopause level between two layer centres, the one farther from the default 0.2
    jw_opts = dict(sigma_tropo=float(max(mids, key=lambda t: abs(t - 0.2))), sigma0=float(rng.integers(20, 30)) / 100.0)
    kw_jws = [dict(u0=v['u0'] * u.m / u.s, p0=1e5 * u.pascal, t0=v['t0'] * u.degK, delta_t=v['delta_t'] * u.degK, gamma=0.001 * v['gamma'] * u.degK / u.m, **jw_opts),
              dict(u0=3.6 * v['u0'] * u.km / u.hour, p0=1000.0 * u.hPa, t0=u.Quantity(v['t0'] - 273.15, u.degC), delta_t=(v['delta_t'] / 1000.0) * u.kilokelvin,
                   gamma=v['gamma'] * u.degK / u.km, **jw_opts)]
    pert_opts = dict(lon_location=float(rng.integers(1, 12)) * np.pi / 6, lat_location=float(rng.integers(-3, 4)) * np.pi / 9,
                     perturbation_radius=float(rng.integers(5, 30)) / 100.0)
    u_perturbs = [v['up'] * u.m / u.s, 3.6 * v['up'] * u.km / u.hour]
    gs_opts = dict(lon_location=pert_opts['lon_location'], lat_location=pert_opts['lat_location'], perturbation_radius=float(rng.integers(10, 40)) / 100.0,
                   amplitude=float(rng.integers(1, 9)) / 4.0)
    labels = ['default'] + a['scales'] + ['default']; R = []
    for n_, sv in enumerate(labels):
        kw_iso = kw_isos[n_ % 2]; kw_jw = kw_jws[n_ % 2]; u_perturb = u_perturbs[n_ % 2]
        specs = _register(pe.PrimitiveEquationsSpecs.from_si(scale=_scale(sv), **consts), sv)
        g = _mkgrid(radius=specs.radius); c = dyn.coords(g, b); out = {}
        fn, aux = pes.isothermal_rest_atmosphere(c, specs, **kw_iso)
        out.update(_pe_state_si(specs, g, fn(jax.random.PRNGKey(3)), 'isothermal_rest_atmosphere '))
        out['isothermal orography[m]'] = _D(specs, aux[xarray_utils.OROGRAPHY], 'meter')
        out['isothermal ref_temperatures[K]'] = _D(specs, aux[xarray_utils.REF_TEMP_KEY], 'kelvin')
        fn, aux = pes.steady_state_jw(c, specs, **kw_jw)
        out.update(_pe_state_si(specs, g, fn(), 'steady_state_jw '))
        out['jw orography[m]'] = _D(specs, aux[xarray_utils.OROGRAPHY], 'meter')
        out['jw geopotential[m^2/s^2]'] = _D(specs, aux[xarray_utils.GEOPOTENTIAL_KEY], 'meter**2/second**2')
        out['jw ref_temperatures[K]'] = _D(specs, aux[xarray_utils.REF_TEMP_KEY], 'kelvin')
        pert = pes.baroclinic_perturbation_jw(c, specs, u_perturb=u_perturb, **pert_opts)
        out['baroclinic_perturbation vorticity[1/s]'] = _D(specs, pert.vorticity, '1/second')
        out['baroclinic_perturbation divergence[1/s]'] = _D(specs, pert.divergence, '1/second')
        out['gaussian_scalar'] = np.asarray(pes.gaussian_scalar(c, specs, **gs_opts), dtype=np.float64)
        R.append(out)
    _cmp(ctx, 'initial-state generators produce the same SI state under every scale', R, labels)
    # independent references (SI formulas evaluated here)
    ctx.oracle_close('isothermal_rest_atmosphere reference temperature = tref', R[0]['isothermal ref_temperatures[K]'], np.full(K, v['tref']), tol_rel=1e-12)
    ctx.oracle_close('isothermal_rest_atmosphere orography = the surface height given', R[0]['isothermal orography[m]'], height, scale=500.0, tol_rel=1e-12)
    sig = np.asarray(dyn.coords(g0, b).vertical.centers); g_si = float(consts['gravity_acceleration_si'].to('m/s**2').magnitude)
    R_si = float(consts['ideal_gas_constant_si'].to('J/kg/K').magnitude)
    tr = v['t0'] * sig ** (R_si * 0.001 * v['gamma'] / g_si) + np.where(sig < jw_opts['sigma_tropo'], v['delta_t'] * np.abs(jw_opts['sigma_tropo'] - sig) ** 5, 0.0)
    ctx.oracle_close('steady_state_jw reference temperatures = the Jablonowski-Williamson formula in SI', R[0]['jw ref_temperatures[K]'], tr, tol_rel=1e-9)



# ---------------------------------------------------------------------------
# radiation
# ---------------------------------------------------------------------------
def r_radiation(ctx, a):
    m = M(); pe = m['pe']; u = m['units']
    from dinosaur import radiation
    import datetime
    rng = np.random.Generator(np.random.PCG64(a['seed']))
    g0 = _mkgrid(); b = [0.0, 0.5, 1.0]
    ref = datetime.datetime(1990 + int(rng.integers(0, 30)), int(rng.integers(1, 13)), int(rng.integers(1, 28)), int(rng.integers(0, 24)), int(rng.integers(0, 60)))
    t_si = [float(x) for x in rng.integers(0, 86400 * 200, size=3)] + [-float(rng.integers(1, 86400 * 30))]      # incl. a negative time
    when = ref + datetime.timedelta(days=float(rng.integers(1, 300)), hours=float(rng.integers(0, 24)))
    labels = ['default'] + a['scales']; R = []
    for sv in labels:
        specs = _register(pe.PrimitiveEquationsSpecs.from_si(scale=_scale(sv)), sv)
        g = _mkgrid(radius=specs.radius); c = dyn.coords(g, b); out = {}
        rf = ref if (len(R) % 2 == 0) else np.datetime64(ref)         # both accepted forms of the reference date
        sr = radiation.SolarRadiation(c, specs, rf); srn = radiation.SolarRadiation.normalized(c, specs, rf)
        for i, t in enumerate(t_si):
            tn = float(_ND(specs, t, 'second'))
            out[f'radiation_flux t{i}[W/m^2]'] = _D(specs, sr.radiation_flux(tn), 'watt/meter**2')
            out[f'normalized radiation_flux t{i}'] = np.asarray(srn.radiation_flux(tn), dtype=np.float64)
            out[f'cos(solar_hour_angle) t{i}'] = np.cos(np.asarray(sr.solar_hour_angle(tn), dtype=np.float64))
        out['datetime_to_time[s]'] = _D(specs, sr.datetime_to_time(when), 'second')
        R.append(out)
    fl = {k: 1.0 for k in R[0] if 'cos(' in k}
    _cmp(ctx, 'solar radiation equal in SI under every scale', R, labels, floor=fl)


# ---------------------------------------------------------------------------
# one base unit extreme at a time, nearly isothermal reference temperature
# ---------------------------------------------------------------------------
def r_pe_extreme(ctx, a):
    m = M(); ti = m['ti']
    rng = np.random.Generator(np.random.PCG64(a['seed']))
    kind = a['kind']; p = _pe_problem(rng, kind, a['K'], tref_range=a['tref_range'], gridkw=a.get('grid'), structure=a.get('structure'))
    labels = ['default', [1.0, 1.0, 1.0, 1.0]] + a['scales']
    R = {k: [] for k in ('explicit', 'implicit', 'step')}
    for sv in labels:
        specs, g, c, st, eq = _pe_setup(sv, p, kind)
        dt = float(_ND(specs, p['dt'], 'second'))
        ex = eq.explicit_terms(st); im = eq.implicit_terms(st)
        R['explicit'].append(_pe_tend_si(specs, ex, '', _gmax(ex)))
        R['implicit'].append(_lnps_noise_atol(_pe_tend_si(specs, im, '', _gmax(im)), specs, g, eq, st))
        s1 = dyn.integrator('crank_nicolson_rk2', eq, dt)(st)
        R['step'].append(_pe_state_si(specs, g, s1, 'crank_nicolson_rk2 step: ', _gmax(s1, st)))
    ctx.count('tref_range:%g' % a['tref_range'])
    nm = f'primitive equations ({kind}), nearly isothermal T_ref, one base unit extreme'
    _cmp(ctx, nm + ': explicit_terms equal in SI under every scale', R['explicit'], labels)
    _cmp(ctx, nm + ': implicit_terms equal in SI under every scale', R['implicit'], labels)
    _cmp(ctx, nm + ': a time step equal in SI under every scale', R['step'], labels)


def _sw_problem(rng, gridkw=None):
    m = M(); u = m['units']; sc = m['scales']; gridkw = dict(gridkw or {}); g0 = _mkgrid(**gridkw); K = 2
    f = lambda: float(1.0 + 0.2 * (rng.random() - 0.5))
    consts = dict(densities=np.array([1000.0, 1000.0 + float(rng.integers(50, 400))]) * u.kg / u.m ** 3, radius_si=sc.RADIUS * f(),
                  angular_velocity_si=sc.ANGULAR_VELOCITY * f(), gravity_acceleration_si=sc.GRAVITY_ACCELERATION * f())
    return dict(consts=consts, K=K, gridkw=gridkw, vort=dyn.modal_field(rng, g0, (K,), 2, True, 2e-5), div=dyn.modal_field(rng, g0, (K,), 2, True, 4e-6),
                pot=dyn.modal_field(rng, g0, (K,), 2, False, 60.0), oro=dyn.modal_field(rng, g0, (), 2, False, 150.0),
                ref=np.array([3.0e4, 2.0e4]) * f(), dt=float(rng.integers(300, 1200)))


def _sw_setup(sv, p):
    m = M(); sw = m['sw']
    specs = _register(sw.ShallowWaterSpecs.from_si(scale=_scale(sv), **p['consts']), sv)
    g = _mkgrid(radius=specs.radius, **p.get('gridkw', {})); c = dyn.layer_coords(g, p['K'])
    st = _to_jnp(sw.State(vorticity=_ND(specs, p['vort'], '1/second'), divergence=_ND(specs, p['div'], '1/second'),
                          potential=_ND(specs, p['pot'], 'meter**2/second**2')))
    eq = sw.ShallowWaterEquations(c, specs, _ND(specs, p['oro'], 'meter**2/second**2'), _ND(specs, p['ref'], 'meter**2/second**2'))
    return specs, g, c, st, eq


def _sw_si(specs, t, pre, gm, tend=False):
    u = M()['units']; out = Out()
    if tend:
        _put(out, specs, pre + 'vorticity[1/s^2]', t.vorticity, '1/second**2', gm); _put(out, specs, pre + 'divergence[1/s^2]', t.divergence, '1/second**2', gm)
        _put(out, specs, pre + 'potential[m^2/s^3]', t.potential, u.m ** 2 / u.s ** 3, gm)
    else:
        _put(out, specs, pre + 'vorticity[1/s]', t.vorticity, '1/second', gm); _put(out, specs, pre + 'divergence[1/s]', t.divergence, '1/second', gm)
        _put(out, specs, pre + 'potential[m^2/s^2]', t.potential, 'meter**2/second**2', gm)
    return out


def r_sw_extreme(ctx, a):
    rng = np.random.Generator(np.random.PCG64(a['seed'])); p = _sw_problem(rng, a.get('grid'))
    m = M(); sw = m['sw']; alpha = float(a.get('alpha', 0.5))
    labels = ['default', [1.0, 1.0, 1.0, 1.0]] + a['scales']
    R = {k: [] for k in ('explicit', 'implicit', 'step')}
    for sv in labels:
        specs, g, c, st, eq = _sw_setup(sv, p)
        dt = float(_ND(specs, p['dt'], 'second'))
        ex = eq.explicit_terms(st); im = eq.implicit_terms(st)
        R['explicit'].append(_sw_si(specs, ex, '', _gmax(ex), True)); R['implicit'].append(_sw_si(specs, im, '', _gmax(im), True))
        s1 = dyn.integrator('crank_nicolson_rk2', eq, dt)(st)
        o = _sw_si(specs, s1, 'step: ', _gmax(s1, st))
        lf = sw.shallow_water_leapfrog_step(c, dt, specs, eq.reference_potential, eq.orography, alpha=alpha)((st, s1))
        o.merge(_sw_si(specs, lf[1], f'leapfrog(alpha={alpha}) step: ', 2 * _gmax(lf[1], st)))
        R['step'].append(o)
    for k in R:
        _cmp(ctx, f'shallow water, one base unit extreme: {k} equal in SI under every scale', R[k], labels)


# ---------------------------------------------------------------------------
# every public grid construction route carries the radius
# ---------------------------------------------------------------------------
def r_grid_routes(ctx, a):
    """Grid(...), Grid.with_wavenumbers, Grid.construct and the named factories, each given radius=specs.radius: the grid
    must live on the sphere of the non-dimensionalised SI radius (independent reference: radius_SI / length unit), and
    its radius-dependent operators must agree in SI under every scale."""
    m = M(); pe = m['pe']; sh = m['sh']; jnp = m['jnp']; u = m['units']
    rng = np.random.Generator(np.random.PCG64(a['seed']))
    consts = _si_constants(rng); a_si = float(consts['radius_si'].to('meter').magnitude)
    labels = ['default'] + a['scales']
    for route in a['routes']:
        R = []
        gk = dict(a.get('grid') or {})
        g0 = _mkgrid(radius=1.0, route=route, **gk)
        x = dyn.modal_field(rng, g0, (), 2, True, 1.0)          # one band-limited scalar (dimensionless)
        for sv in labels:
            specs = _register(pe.PrimitiveEquationsSpecs.from_si(scale=_scale(sv), **consts), sv)
            g = _mkgrid(radius=specs.radius, route=route, **gk)
            want = a_si / _scale_vec(sv)[0]
            ctx.oracle_close(f'grid.radius = non-dimensionalised SI radius for every construction route [{route}]', float(g.radius), want, tol_rel=1e-12)
            ctx.exact(f'route {route}: same resolution under every scale', [list(g.modal_shape), list(g.nodal_shape)], [list(g0.modal_shape), list(g0.nodal_shape)])
            xs = jnp.asarray(x)
            gx, gy = g.cos_lat_grad(xs)
            out = {'laplacian_eigenvalues[1/m^2]': _D(specs, g.laplacian_eigenvalues, u.m ** -2),
                   'laplacian of a scalar[1/m^2]': _D(specs, g.laplacian(xs), u.m ** -2),
                   'cos_lat_grad of a scalar, x[1/m]': _D(specs, gx, u.m ** -1), 'cos_lat_grad of a scalar, y[1/m]': _D(specs, gy, u.m ** -1),
                   'div_cos_lat[1/m]': _D(specs, g.div_cos_lat((xs, 0.5 * xs)), u.m ** -1), 'curl_cos_lat[1/m]': _D(specs, g.curl_cos_lat((xs, 0.5 * xs)), u.m ** -1),
                   'integrate(1)[m^2]': _D(specs, g.integrate(jnp.ones(g.nodal_shape)), u.m ** 2)}
            R.append(out)
        ctx.count('grid_route:' + route)
        _cmp(ctx, f'radius-dependent grid operators equal in SI under every scale [{route}]', R, labels)
        ll = np.arange(g0.total_wavenumbers, dtype=np.float64)
        ctx.oracle_close(f'laplacian eigenvalues = -l(l+1)/a^2 with the SI radius [{route}]', R[0]['laplacian_eigenvalues[1/m^2]'], -ll * (ll + 1) / a_si ** 2, tol_rel=1e-12)
        ctx.oracle_close(f'area of the sphere = 4 pi a^2 with the SI radius [{route}]', R[0]['integrate(1)[m^2]'], 4 * np.pi * a_si ** 2, tol_rel=1e-10)


# ---------------------------------------------------------------------------
# multi-step run: digital filter initialisation
# ---------------------------------------------------------------------------
def r_dfi(ctx, a):
    """time_integration.digital_filter_initialization over SI windows that are whole multiples of the SI step: the
    number of steps (and the Lanczos weights) must not depend on the time unit."""
    m = M(); ti = m['ti']; jax = m['jax']
    rng = np.random.Generator(np.random.PCG64(a['seed']))
    labels = ['default'] + a['scales'] + a.get('count_scales', [])
    nrun = 1 + len(a['scales'])            # the scales after these only enter the (cheap) step-count comparison
    p = _sw_problem(rng) if a['eq'] == 'shallow_water' else _pe_problem(rng, 'dry', 3)
    u = m['units']
    for ip, (Wv, Wu, Sv, Su) in enumerate(a['pairs']):
        do_run = ip in a.get('run', list(range(len(a['pairs']))))
        Wq = Wv * u(Wu); Sq = Sv * u(Su); S_si = float(Sq.to('second').magnitude); W_si = float(Wq.to('second').magnitude)
        Rn, Rs = [], []
        for sv in labels:
            if a['eq'] == 'shallow_water':
                specs, g, c, st, eq = _sw_setup(sv, p); solver = ti.crank_nicolson_rk2
            else:
                specs, g, c, st, eq = _pe_setup(sv, p, 'dry'); solver = ti.crank_nicolson_rk2
            W = float(specs.nondimensionalize(Wq)); S = float(specs.nondimensionalize(Sq))
            w = ti._dfi_lanczos_weights(W, W, S)
            w2 = ti._dfi_lanczos_weights(float(_ND(specs, W_si, 'second')), float(_ND(specs, W_si, 'second')), float(_ND(specs, S_si, 'second')))
            Rn.append({'number of steps in each half of the window (window/step given in %s/%s)' % (Wu, Su): np.asarray([float(len(w))]),
                       'number of steps in each half of the window (window/step given in seconds)': np.asarray([float(len(w2))]),
                       'lanczos weights (padded)': np.pad(w, (0, 64 - len(w))), 'lanczos weights (seconds, padded)': np.pad(w2, (0, 64 - len(w2)))})
            if not do_run or len(Rs) >= nrun: continue
            filt = _filters_si(['exponential'], g, specs, S_si)
            with jax.disable_jit():        # the scans are executed step by step: no compilation per scale
                out = ti.digital_filter_initialization(eq, solver, filt, W, W, S)(st)
            gm = (len(w) + 1) * _gmax(out, st)
            Rs.append(_sw_si(specs, out, '', gm) if a['eq'] == 'shallow_water' else _pe_state_si(specs, g, out, '', gm))
        ctx.count('dfi:%s window=%g %s step=%g %s' % (a['eq'], Wv, Wu, Sv, Su))
        _cmp(ctx, f'digital filter initialization ({a["eq"]}): step count and weights do not depend on the time unit', Rn, labels)
        if do_run:
            _cmp(ctx, f'digital filter initialization ({a["eq"]}): filtered multi-step state equal in SI under every scale', Rs, labels[:nrun])


# ---------------------------------------------------------------------------
# winds <-> vorticity/divergence with the jitted helpers, several scales in one process
# ---------------------------------------------------------------------------
def r_winds(ctx, a):
    m = M(); sh = m['sh']; pe = m['pe']; jnp = m['jnp']
    rng = np.random.Generator(np.random.PCG64(a['seed']))
    gkw = dict(a.get('grid') or {})
    g0 = _mkgrid(**gkw); consts = _si_constants(rng)
    # SI winds (m/s) of a band-limited flow: diagnosed once, with the grid methods, from SI vorticity / divergence on a
    # grid whose radius is the SI radius in metres
    g_si = _mkgrid(radius=float(consts['radius_si'].to('meter').magnitude), **gkw)
    vor_si = dyn.modal_field(rng, g_si, (2,), 2, True, 2e-5); div_si = dyn.modal_field(rng, g_si, (2,), 2, True, 4e-6)
    cu, cv = sh.get_cos_lat_vector(jnp.asarray(vor_si), jnp.asarray(div_si), g_si, clip=False)
    usi = np.asarray(g_si.to_nodal(cu)) / np.asarray(g_si.cos_lat); vsi = np.asarray(g_si.to_nodal(cv)) / np.asarray(g_si.cos_lat)
    A, B = a['scales'][0], a['scales'][1]
    order = ['default', A, B, A, [1.0, 1.0, 1.0, 1.0], B, 'default']          # A then B, B then A, ... in ONE process
    labels = []; R = []
    grids = {}
    for n, sv in enumerate(order):
        specs = _register(pe.PrimitiveEquationsSpecs.from_si(scale=_scale(sv), **consts), sv)
        g = _mkgrid(radius=specs.radius, **gkw); grids[json_key(sv)] = g
        und = jnp.asarray(_ND(specs, usi, 'meter/second')); vnd = jnp.asarray(_ND(specs, vsi, 'meter/second'))
        vor, div = sh.uv_nodal_to_vor_div_modal(g, und, vnd)
        # the same computation with the (non-jitted) grid methods
        uo = g.to_modal(und / g.cos_lat); vo = g.to_modal(vnd / g.cos_lat)
        vor_ref = g.curl_cos_lat((uo, vo), clip=True); div_ref = g.div_cos_lat((uo, vo), clip=True)
        sc_v = float(np.max(np.abs(np.asarray(vor_ref)))) + 1e-300
        ctx.oracle_close('uv_nodal_to_vor_div_modal = the grid methods of THIS grid (call %d of a multi-scale sequence)' % n,
                         np.asarray(vor), np.asarray(vor_ref), scale=sc_v, tol_rel=1e-10)
        ctx.oracle_close('uv_nodal_to_vor_div_modal = the grid methods of THIS grid (call %d of a multi-scale sequence)' % n,
                         np.asarray(div), np.asarray(div_ref), scale=sc_v, tol_rel=1e-10)
        u2, v2 = sh.vor_div_to_uv_nodal(g, vor_ref, div_ref)
        out = {'vorticity from SI winds[1/s]': _D(specs, vor, '1/second'), 'divergence from SI winds[1/s]': _D(specs, div, '1/second'),
               'winds diagnosed from vorticity/divergence, u[m/s]': _D(specs, u2, 'meter/second'),
               'winds diagnosed from vorticity/divergence, v[m/s]': _D(specs, v2, 'meter/second')}
        R.append(out); labels.append(sv if n else 'default')
    fl = {'divergence from SI winds[1/s]': float(np.max(np.abs(R[0]['vorticity from SI winds[1/s]'])))}
    _cmp(ctx, 'state built from SI winds / winds diagnosed from the state are equal in SI under every scale, in any call order', R, labels, floor=fl)
    ctx.oracle_close('winds diagnosed from (vorticity, divergence) of band-limited winds return the winds', R[0]['winds diagnosed from vorticity/divergence, u[m/s]'], usi,
                     scale=float(np.max(np.abs(usi))), tol_rel=1e-9)
    ctx.oracle_close('vorticity of the SI winds is the SI vorticity they were diagnosed from', R[0]['vorticity from SI winds[1/s]'], vor_si,
                     scale=float(np.max(np.abs(vor_si))), tol_rel=1e-9)
    gs = list(grids.values())
    ok = all((g1 != g2) and (hash(g1) != hash(g2) or g1 != g2) for i, g1 in enumerate(gs) for g2 in gs[i + 1:] if g1.radius != g2.radius)
    ctx.oracle('grids that differ only in radius are different jit-static arguments (g1 != g2)', bool(ok),
               {'radii': [float(g.radius) for g in gs]})
    import dataclasses
    g1 = _mkgrid(radius=1.0, **gkw); g2 = dataclasses.replace(g1, radius=2.0)
    ctx.oracle('grids that differ only in radius are different jit-static arguments (g1 != g2)', bool(g1 != g2), {'radii': [1.0, 2.0]})


def json_key(sv):
    return 'default' if sv == 'default' else ','.join(repr(float(x)) for x in sv)


# ---------------------------------------------------------------------------
# AST scan: absolute numeric thresholds inside function bodies
# ---------------------------------------------------------------------------
# Documented exceptions of the reviewed tree (module, function, source of the comparison / call); all of them act on
# dimensionless or fixed-unit quantities:
#  * dinosaur/sigma_coordinates.py:80 SigmaCoordinates.__init__: np.isclose(boundaries[0], 0) / np.isclose(boundaries[-1], 1) - sigma
#  * dinosaur/horizontal_interpolation.py:298: jnp.isclose(not_null_fraction, 1, rtol=0.001) - a fraction
#  * dinosaur/xarray_utils.py:859/862 verify_grid_consistency, :1008/1009 infer_latitude_spacing - angles in degrees
#  * dinosaur/vertical_interpolation.py:202 _from_resource_csv: 100 < a.max() < 1000 - hPa table sanity check (fixed unit)
ALLOWED_THRESHOLDS = {
    ('sigma_coordinates', '__init__', 'np.isclose(self.boundaries[0], 0)'),
    ('sigma_coordinates', '__init__', 'np.isclose(self.boundaries[-1], 1)'),
    ('horizontal_interpolation', '__call__', 'jnp.isclose(not_null_fraction, 1, rtol=0.001)'),
    ('xarray_utils', 'verify_grid_consistency', 'np.testing.assert_allclose(180 / np.pi * grid.longitudes, longitude, atol=0.001)'),
    ('xarray_utils', 'verify_grid_consistency', 'np.testing.assert_allclose(180 / np.pi * grid.latitudes, latitude, atol=0.001)'),
    ('xarray_utils', 'infer_latitude_spacing', 'np.allclose(np.diff(lat), lat[1] - lat[0])'),
    ('xarray_utils', 'infer_latitude_spacing', 'np.isclose(max(lat), 90.0)'),
    ('vertical_interpolation', '_from_resource_csv', '100 < a.max() < 1000'),
}


# truncations (int / floor / ceil / trunc of a true quotient, floor division) of the reviewed tree; all act on integers
# (shapes, wavenumbers, device counts) except the phase wrap of radiation.py, which is continuous modulo 2 pi:
ALLOWED_TRUNCATIONS = {
    ('fourier', 'real_basis_derivative', '(i + 1) // 2'),
    ('fourier', 'real_basis_derivative_with_zero_imag', 'i // 2'),
    ('jax_numpy_utils', '_allgather_matmul_twoway', 'axis_size // 2'),
    ('jax_numpy_utils', '_matmul_reducescatter_twoway', 'axis_size // 2'),
    ('jax_numpy_utils', 'indexed_computation', 'axis_size // 2'),
    ('radiation', 'time_to_orbital_time', 'orbital_time // (2 * jnp.pi)'),
    ('spherical_harmonic', '_round_to_multiple', 'math.ceil(x / multiple)'),
    ('spherical_harmonic', 'basis', 'modal_pad_x // 2'),
}


def _structural(e):
    """operand that is a shape / rank / length / index, not a physical quantity."""
    src = ast.unparse(e)
    return bool(re.search(r'(ndim|\.size|\.shape|\blen\(|\.layers|_nodes|wavenumbers|\.count\(|\bsteps\b|num_|\blength\b|\.index\(|axis_size)', src))


def _nonstruct(e):
    return not isinstance(e, ast.Constant) and not _structural(e)


def scan_thresholds(repo):
    d = os.path.join(repo, 'dinosaur')
    hits = []; trunc = []
    for f in sorted(os.listdir(d)):
        if not f.endswith('.py') or f.endswith('_test.py'): continue
        try:
            t = ast.parse(open(os.path.join(d, f)).read())
        except SyntaxError:
            continue
        mod = f[:-3]
        for fn in ast.walk(t):
            if not isinstance(fn, (ast.FunctionDef, ast.AsyncFunctionDef)): continue
            for node in ast.walk(fn):
                if isinstance(node, ast.Compare):
                    sides = [node.left] + list(node.comparators)
                    lits = []
                    for sd in sides:
                        v = sd.operand if isinstance(sd, ast.UnaryOp) else sd
                        if isinstance(v, ast.Constant) and isinstance(v.value, (int, float)) and not isinstance(v.value, bool):
                            lits.append(v.value)
                    others = [sd for sd in sides if not (isinstance(sd.operand if isinstance(sd, ast.UnaryOp) else sd, ast.Constant))]
                    if not lits or not others: continue
                    nonzero_float = any(isinstance(v, float) and v != 0 for v in lits)
                    big_int = any(isinstance(v, int) and abs(v) > 2 for v in lits)
                    if (nonzero_float or big_int) and not all(_structural(o) for o in others):
                        hits.append((mod, fn.name, ast.unparse(node), node.lineno))
                elif isinstance(node, ast.Call):
                    nm = node.func.attr if isinstance(node.func, ast.Attribute) else node.func.id if isinstance(node.func, ast.Name) else ''
                    if nm in ('isclose', 'allclose', 'assert_allclose', 'assert_array_almost_equal', 'assert_almost_equal'):
                        hits.append((mod, fn.name, ast.unparse(node), node.lineno))
                    elif nm in ('int', 'floor', 'ceil', 'trunc', 'fix') and any(
                            isinstance(c, ast.BinOp) and isinstance(c.op, ast.Div) and (_nonstruct(c.left) or _nonstruct(c.right))
                            for arg in node.args for c in ast.walk(arg)):
                        trunc.append((mod, fn.name, ast.unparse(node), node.lineno))
                elif isinstance(node, ast.BinOp) and isinstance(node.op, ast.FloorDiv) and (_nonstruct(node.left) or _nonstruct(node.right)):
                    trunc.append((mod, fn.name, ast.unparse(node), node.lineno))
    def uniq(l):
        seen = set(); out = []
        for h in l:
            if h not in seen: seen.add(h); out.append(h)
        return out
    return uniq(hits), uniq(trunc)


def r_threshold_scan(ctx, a):
    repo = os.environ.get('DINOSAUR_REPO', '/repo')
    hits, trunc = scan_thresholds(repo)
    tnew = [f'dinosaur/{m_}.py:{ln}: {fn}: {src}' for m_, fn, src, ln in trunc if (m_, fn, src) not in ALLOWED_TRUNCATIONS]
    told = [f'dinosaur/{m_}.py:{ln}: {fn}: {src}' for m_, fn, src, ln in trunc if (m_, fn, src) in ALLOWED_TRUNCATIONS]
    ctx.table_obligation('no truncation (int/floor/ceil/trunc, //) of a non-structural quotient inside function bodies beyond the documented exceptions',
                         not tnew, {'new': tnew, 'documented exceptions present': told})
    new = [f'dinosaur/{m_}.py:{ln}: {fn}: {src}' for m_, fn, src, ln in hits if (m_, fn, src) not in ALLOWED_THRESHOLDS]
    old = [f'dinosaur/{m_}.py:{ln}: {fn}: {src}' for m_, fn, src, ln in hits if (m_, fn, src) in ALLOWED_THRESHOLDS]
    ctx.table_obligation('no absolute numeric threshold / tolerance test inside function bodies beyond the documented exceptions',
                         not new, {'new': new, 'documented exceptions present': old})
    ctx.count('scan:documented_thresholds', len(old))


# ---------------------------------------------------------------------------
# correspondence: Scale vs model factor
# ---------------------------------------------------------------------------
def r_units(ctx, a):
    m = M(); u = m['units']; pe = m['pe']; sw = m['sw']; sc = m['scales']
    rng = np.random.Generator(np.random.PCG64(a['seed']))
    scale = _scale(a['scale']); sv = _scale_vec(a['scale'])
    for unit, d in DIMS.items():
        q = u(unit)
        conv = float(q.to_base_units().magnitude)      # pint conversion factor to base units (table)
        vals = [float(x) for x in (rng.integers(1, 2000, size=3) / 8.0)]
        nd = [float(scale.nondimensionalize(v * q)) for v in vals]
        dm = [float(scale.dimensionalize(v, q.units).magnitude) for v in vals]
        mo = ctx.model.call(0, list(d), [sv, [Fraction(v) * Fraction(conv) for v in vals]])
        ctx.corr(f'Scale.nondimensionalize [{unit}]', nd, mo[1:4], scale=max(abs(float(x)) for x in mo[1:4]))
        mo2 = ctx.model.call(0, list(d), [sv, [Fraction(v) for v in vals]])
        ctx.corr(f'Scale.dimensionalize [{unit}]', [x * conv for x in dm], mo2[4:7], scale=max(abs(float(x)) for x in mo2[4:7]))
        ctx.table_obligation(f'pint: dimensionality of [{unit}] is the exponent vector used by the model',
                             _pint_dim(q) == tuple(d), {'pint': _pint_dim(q), 'model': d})
        back = [float(scale.dimensionalize(x, q.units).magnitude) for x in nd]
        ctx.oracle_close('dimensionalize(nondimensionalize(x)) = x', back, vals, tol_rel=1e-12)
    # forms of the magnitude: python int / float, numpy ints, 0-d, 1-element, rank-3, read-only (float32 input stays float32 in the library and is therefore not exact: not used) / strided views
    base = np.arange(1, 25, dtype=np.float64).reshape(2, 3, 4) / 4.0
    ro = base.copy(); ro.setflags(write=False)
    forms = {'python int': 3, 'python float': 3.0, 'numpy int64 array': np.arange(1, 5), 'numpy int32 scalar': np.int32(7), '0-d array': np.asarray(2.5),
             '1-element array': np.asarray([2.5]), 'rank-3 array': base, 'read-only array': ro,
             'strided view': base[:, ::2, ::-1], 'bool array': np.array([True, False])}
    for unit in ('kilometer', 'hour', 'hectopascal', 'joule/kilogram/kelvin'):
        q = u(unit); conv = float(q.to_base_units().magnitude)
        f0 = float(ctx.model.call(0, list(DIMS[unit]), [sv, [1.0]])[0])
        for nm, val in forms.items():
            got = np.asarray(scale.nondimensionalize(val * q), dtype=np.float64)
            want = np.asarray(val, dtype=np.float64) * conv / f0
            ctx.oracle_close(f'Scale.nondimensionalize of a {nm} = value * unit / factor', got, want, tol_rel=1e-12)
            back = np.asarray(scale.dimensionalize(np.asarray(val, dtype=np.float64), q.units).magnitude, dtype=np.float64)
            ctx.oracle_close(f'Scale.dimensionalize of a {nm} = value * factor / unit', back, np.asarray(val, dtype=np.float64) * f0 / conv, tol_rel=1e-12)
        ctx.oracle('nondimensionalize does not modify its argument', bool(np.array_equal(base, np.arange(1, 25, dtype=np.float64).reshape(2, 3, 4) / 4.0)), None)
    # offset units are converted to kelvin (autoconvert_offset_to_baseunit)
    fK = float(ctx.model.call(0, list(DIMS['kelvin']), [sv, [1.0]])[0])
    ctx.oracle_close('nondimensionalize(15 degC) = 288.15 K / temperature scale', float(scale.nondimensionalize(u.Quantity(15.0, u.degC))), 288.15 / fK, tol_rel=1e-12)
    # the constants carried by the specs objects
    consts = _si_constants(rng)
    specs = pe.PrimitiveEquationsSpecs.from_si(scale=scale, **consts)
    table = [('radius', 'radius_si', 'meter'), ('angular_velocity', 'angular_velocity_si', '1/second'),
             ('gravity_acceleration', 'gravity_acceleration_si', 'meter/second**2'), ('ideal_gas_constant', 'ideal_gas_constant_si', 'joule/kilogram/kelvin'),
             ('water_vapor_gas_constant', 'water_vapor_gas_constant_si', 'joule/kilogram/kelvin'),
             ('water_vapor_isobaric_heat_capacity', 'water_vapor_isobaric_heat_capacity_si', 'joule/kilogram/kelvin'), ('kappa', 'kappa_si', 'dimensionless')]
    for attr, key, unit in table:
        base = float(consts[key].to_base_units().magnitude)
        mo = ctx.model.call(0, list(DIMS[unit]), [sv, [base]])
        ctx.corr(f'PrimitiveEquationsSpecs.from_si(scale).{attr}', [float(getattr(specs, attr))], mo[1:2], scale=abs(float(mo[1])))
    dens = np.array([997.0, 1100.0])
    sws = sw.ShallowWaterSpecs.from_si(densities=dens * u.kg / u.m ** 3, radius_si=consts['radius_si'], angular_velocity_si=consts['angular_velocity_si'],
                                       gravity_acceleration_si=consts['gravity_acceleration_si'], scale=scale)
    mo = ctx.model.call(0, list(DIMS['kilogram/meter**3']), [sv, [float(x) for x in dens]])
    ctx.corr('ShallowWaterSpecs.from_si(scale).densities', np.asarray(sws.densities), mo[1:3], scale=abs(float(mo[1])))
    for attr, key, unit in table[:3]:
        base = float(consts[key].to_base_units().magnitude)
        mo = ctx.model.call(0, list(DIMS[unit]), [sv, [base]])
        ctx.corr(f'ShallowWaterSpecs.from_si(scale).{attr}', [float(getattr(sws, attr))], mo[1:2], scale=abs(float(mo[1])))


def _pint_dim(q):
    d = q.to_base_units().dimensionality
    return tuple(int(round(float(d.get(k, 0)))) for k in ('[length]', '[time]', '[mass]', '[temperature]'))


# ---------------------------------------------------------------------------
# column operators: homogeneity of the model (exact) and of the implementation
# ---------------------------------------------------------------------------
def r_sigma_homog(ctx, a):
    m = M(); jnp = m['jnp']; sc = m['sc']; pe = m['pe']
    rng = np.random.Generator(np.random.PCG64(a['seed']))
    K = a['K']; b = util.uneven_boundaries(rng, K); sv = _scale_vec(a['scale'])
    c = sc.SigmaCoordinates(b)
    x = util.small_rationals(rng, (K,)); w = util.small_rationals(rng, (max(K - 1, 0),))
    fac = lambda d: float(ctx.model.call(0, list(d), [sv, [1.0]])[0])
    def halves(mo): n = len(mo) // 2; return mo[:n], mo[n:]
    d_rate, d_temp = DIMS['1/second'], DIMS['kelvin']
    for dot in (1, 0):
        for down in (1, 0):
            lhs, rhs = halves(ctx.model.call(2, [K, dot, down] + list(d_rate), [b, x, sv]))
            ctx.exact(f'model: cumulative_sigma_integral(s*x) = s*cumulative_sigma_integral(x) dot={dot} down={down}', [str(v) for v in lhs], [str(v) for v in rhs])
            f = lambda q: np.asarray(sc.cumulative_sigma_integral(jnp.asarray(q), c, axis=0, downward=bool(down), cumsum_method='dot' if dot else 'jax'))
            cf = fac(d_rate)
            ctx.corr(f'cumulative_sigma_integral on rescaled input vs scaled model dot={dot} down={down}', f(cf * x), rhs, scale=cf * float(np.abs(x).sum()) + 1e-300, tol_rel=1e-12)
            ctx.oracle_close('column operators are homogeneous: cumulative_sigma_integral', f(cf * x), cf * f(x), scale=cf * float(np.abs(x).sum()) + 1e-300, tol_rel=1e-12)
    if K >= 2:
        lhs, rhs = halves(ctx.model.call(5, [K] + list(d_temp), [b, x, sv]))
        ctx.exact('model: centered_difference(s*x) = s*centered_difference(x)', [str(v) for v in lhs], [str(v) for v in rhs])
        cf = fac(d_temp); c2c = float(np.abs(c.center_to_center).min())
        f = lambda q: np.asarray(sc.centered_difference(jnp.asarray(q), c, axis=0))
        ctx.corr('centered_difference on rescaled input vs scaled model', f(cf * x), rhs, scale=cf * float(np.abs(x).max()) / c2c + 1e-300, tol_rel=1e-12)
        bv = [float(v) for v in util.small_rationals(rng, (4,))]
        lhs, rhs = halves(ctx.model.call(3, [K] + list(d_rate) + list(d_temp), [b, w, x, sv, bv]))
        ctx.exact('model: centered_vertical_advection(s_w*w, s_x*x) = s_w*s_x*centered_vertical_advection(w, x)', [str(v) for v in lhs], [str(v) for v in rhs])
        cw, cx = fac(d_rate), fac(d_temp)
        g = lambda ww, xx, s1, s2: np.asarray(sc.centered_vertical_advection(
            jnp.asarray(ww), jnp.asarray(xx), c, axis=0, w_boundary_values=(jnp.asarray([s1 * bv[0]]), jnp.asarray([s1 * bv[1]])),
            dx_dsigma_boundary_values=(jnp.asarray([s2 * bv[2]]), jnp.asarray([s2 * bv[3]]))))
        s_ = cw * cx * (float(np.abs(w).max()) + max(abs(bv[0]), abs(bv[1]))) * (float(np.abs(x).max()) / c2c + max(abs(bv[2]), abs(bv[3]))) + 1e-300
        ctx.corr('centered_vertical_advection on rescaled inputs vs scaled model', g(cw * w, cx * x, cw, cx), rhs, scale=s_, tol_rel=1e-12)
        ctx.oracle_close('column operators are homogeneous: centered_vertical_advection', g(cw * w, cx * x, cw, cx), cw * cx * g(w, x, 1.0, 1.0), scale=s_, tol_rel=1e-12)
    ls = np.log(c.centers); T = (x + 250.0).reshape(K, 1, 1); Rgas = 287.0
    for sparse in (0, 1):
        lhs, rhs = halves(ctx.model.call(4, [K, sparse], [ls, T.ravel(), [Rgas], sv]))
        ctx.exact(f'model: geopotential_diff(s_R*R, s_T*T) = s_R*s_T*geopotential_diff(R, T) sparse={sparse}', [str(v) for v in lhs], [str(v) for v in rhs])
        cR, cT = fac(DIMS['joule/kilogram/kelvin']), fac(d_temp)
        f = lambda r, t: np.asarray(pe.get_geopotential_diff(jnp.asarray(t), c, r, method='sparse' if sparse else 'dense')).ravel()
        s_ = cR * cT * Rgas * float(np.abs(ls).max() + 1) * float(np.abs(T).sum())
        ctx.corr(f'get_geopotential_diff on rescaled inputs vs scaled model sparse={sparse}', f(cR * Rgas, cT * T), rhs, scale=s_, tol_rel=1e-12)


def r_nodal_homog(ctx, a):
    """the nodal primitive-equation terms of Model/PrimEq.v (tied to the code by C04) executed on rescaled inputs:
    exact covariance in Q with the dimension assignment of Model/Scaling.v."""
    m = M(); sc = m['sc']
    rng = np.random.Generator(np.random.PCG64(a['seed']))
    K = a['K']; b = util.uneven_boundaries(rng, K); sv = _scale_vec(a['scale'])
    ls = np.log(sc.SigmaCoordinates(b).centers)
    col = lambda: [float(v) for v in util.small_rationals(rng, (K,))]
    arrs = [ls, b, [float(v) for v in 250 + rng.integers(-20, 21, size=K)], [287.0, 2.0 / 7.0], col(), col(), col(), col(), col(),
            [float(v) for v in util.small_rationals(rng, (4,))], sv]
    mo = ctx.model.call(6, [K, a['va']], arrs)
    n = len(mo) // 2
    ctx.exact('model: nodal temperature/pressure/momentum terms are covariant with the dimension assignment (exact)',
              [str(v) for v in mo[:n]], [str(v) for v in mo[n:]])
    ctx.exact('model: nodal terms non-trivial', bool(any(v != 0 for v in mo[n:])), True)


def r_moist_homog(ctx, a):
    """moist / cloud nodal terms, vertical temperature tendency and total nodal right-hand sides of Model/PrimEq.v on
    rescaled inputs: exact covariance in Q (theorem C12_moist_and_vertical_terms_homogeneous executed)."""
    m = M(); sc = m['sc']
    rng = np.random.Generator(np.random.PCG64(a['seed']))
    K = a['K']; b = util.uneven_boundaries(rng, K); sv = _scale_vec(a['scale'])
    ls = np.log(sc.SigmaCoordinates(b).centers)
    col = lambda: [float(v) for v in util.small_rationals(rng, (K,))]
    frac = lambda: [float(v) for v in rng.integers(1, 9, size=K) / 256.0]
    tref = [250.0] * K if a['uniform_tref'] else [float(v) for v in 250 + rng.integers(-20, 21, size=K)]
    arrs = [ls, b, tref, [287.0, 2.0 / 7.0, 461.0, 1859.0], col(), col(), col(), col(), col(),
            [float(v) for v in util.small_rationals(rng, (5,))], frac(), frac(), frac(), col(), col(), sv]
    mo = ctx.model.call(8, [K, a['va'], a['sparse']], arrs)
    n = len(mo) // 2
    ctx.exact('model: moist/cloud/vertical nodal terms are covariant with the dimension assignment (exact)',
              [str(v) for v in mo[:n]], [str(v) for v in mo[n:]])
    ctx.exact('model: T_ref-nonuniform branch flag', int(mo[n - 1]), 0 if (a['uniform_tref'] or K == 1) else int(mo[n - 1]))
    ctx.count('tref_nonuniform:%d' % int(mo[n - 1]))


def r_column_homog(ctx, a):
    """implicit column operators of Model/Implicit.v: implicit terms of the rescaled column = rescaled implicit terms
    (exact in Q), with the shift of lnps in the mean mode (lam = 0)."""
    m = M(); sc = m['sc']
    rng = np.random.Generator(np.random.PCG64(a['seed']))
    K = a['K']; b = util.uneven_boundaries(rng, K); sv = _scale_vec(a['scale'])
    ls = np.log(sc.SigmaCoordinates(b).centers)
    col = lambda: [float(v) for v in util.small_rationals(rng, (K,))]
    lam, shift = (0.0, float(rng.integers(1, 40)) / 4) if a['mean_mode'] else (-float(rng.integers(1, 30)), 0.0)
    arrs = [ls, b, [float(v) for v in 250 + rng.integers(-20, 21, size=K)], [287.0, 2.0 / 7.0], col(), col(),
            [float(rng.integers(-8, 9)) / 4, lam, shift], sv]
    mo = ctx.model.call(7, [K], arrs)
    n = len(mo) // 2
    ctx.exact('model: implicit terms of the rescaled column = rescaled implicit terms (exact)', [str(v) for v in mo[:n]], [str(v) for v in mo[n:]])
    ctx.exact('model: implicit terms non-trivial', bool(any(v != 0 for v in mo[n:])), True)


def r_column_matrix(ctx, a):
    """implementation: the implicit matrix under a scale is D M D^-1 of the matrix under DEFAULT_SCALE (D = diag of the
    factors of divergence, temperature, lnps), and its numpy inverse is D M^-1 D^-1 - the hypothesis of the column
    step theorem evaluated on _get_implicit_term_matrix."""
    m = M(); pe = m['pe']
    rng = np.random.Generator(np.random.PCG64(a['seed']))
    K = a['K']; p = _pe_problem(rng, 'dry', K)
    labels = ['default'] + a['scales']
    mats = []
    for sv in labels:
        specs, g, c, st, eq = _pe_setup(sv, p, 'dry')
        eta = 0.5 * float(_ND(specs, p['dt'], 'second'))
        Mx = pe._get_implicit_term_matrix(eta, c, np.asarray(_ND(specs, p['tref'], 'kelvin')), specs.kappa, specs.R)
        d = np.concatenate([np.full(K, _fac(specs, '1/second')), np.full(K, _fac(specs, 'kelvin')), [1.0]])   # nondim -> SI
        mats.append((Mx, d))
    M0, d0 = mats[0]
    for lab, (Mx, d) in zip(labels[1:], mats[1:]):
        r = d0 / d                                    # non-dimensional value under `lab` = r * value under default
        want = r[None, :, None] * M0 / r[None, None, :]
        ctx.oracle_close('implicit matrix under a scale = D M D^-1 of the matrix under DEFAULT_SCALE', Mx, want,
                         scale=float(np.max(np.abs(want))), tol_rel=1e-9)
        # the numpy inverse under the scale inverts the rescaled default matrix; the residual is measured in the
        # units of DEFAULT_SCALE (R = D^-1 (inv . D M D^-1 - I) D), where the matrix is well scaled
        invx = np.linalg.inv(Mx)
        res = np.einsum('lij,ljk->lik', invx, want) - np.eye(2 * K + 1)[None]
        resn = res * r[None, None, :] / r[None, :, None]
        ctx.oracle('numpy inverse of the matrix under a scale inverts the rescaled matrix D M D^-1', bool(np.all(np.abs(resn) <= 1e-9)),
                   {'scale': lab, 'max_residual(DEFAULT units)': float(np.max(np.abs(resn)))})


# ---------------------------------------------------------------------------
# dimension typing of expressions (model level, exact): well-typed => covariant; ill-typed rejected
# ---------------------------------------------------------------------------
def _rand_expr(rng, nv, nc, depth):
    if depth == 0 or rng.random() < 0.2:
        return [1, int(rng.integers(0, nv))] if rng.random() < 0.8 else [0, int(rng.integers(0, nc))]
    op = int(rng.choice([2, 3, 4, 4, 5, 6, 6]))
    if op == 5:
        return [5] + _rand_expr(rng, nv, nc, depth - 1)
    return [op] + _rand_expr(rng, nv, nc, depth - 1) + _rand_expr(rng, nv, nc, depth - 1)


def _py_dim(toks, dims, pos=0):
    """reference dimension typing in python; returns (dim or None, next position)."""
    t = toks[pos]
    if t == 0: return (0, 0, 0, 0), pos + 2
    if t == 1: return tuple(dims[toks[pos + 1]]), pos + 2
    if t == 5: return _py_dim(toks, dims, pos + 1)
    da, p1 = _py_dim(toks, dims, pos + 1); db, p2 = _py_dim(toks, dims, p1)
    if da is None or db is None: return None, p2
    if t in (2, 3): return (da if da == db else None), p2
    if t == 4: return tuple(x + y for x, y in zip(da, db)), p2
    return tuple(x - y for x, y in zip(da, db)), p2


def r_expr(ctx, a):
    rng = np.random.Generator(np.random.PCG64(a['seed'])); sv = _scale_vec(a['scale'])
    pool = [DIMS[k] for k in ('1/second', 'kelvin', 'meter', 'joule/kilogram/kelvin', 'meter/second**2', 'dimensionless', 'meter**2/second**2', 'pascal')]
    # formulas of the code base with their dimension bookkeeping: variables 0..: g, oro, R, T, Tref, kappa, div, u, radius
    named = {'g': DIMS['meter/second**2'], 'oro': DIMS['meter'], 'R': DIMS['joule/kilogram/kelvin'], 'T': DIMS['kelvin'], 'Tref': DIMS['kelvin'],
             'kappa': DIMS['dimensionless'], 'div': DIMS['1/second'], 'u': DIMS['meter/second'], 'a': DIMS['meter']}
    nm = list(named); V = lambda n: [1, nm.index(n)]
    formulas = [('surface geopotential + R*(T+Tref)', [2, 4] + V('oro') + V('g') + [4] + V('R') + [2] + V('T') + V('Tref'), DIMS['meter**2/second**2']),
                ('kappa*T*div', [4, 4] + V('kappa') + V('T') + V('div'), DIMS['kelvin/second']),
                ('u*u/a', [6, 4] + V('u') + V('u') + V('a'), DIMS['meter/second**2']),
                ('R*T + g (ill-typed)', [2, 4] + V('R') + V('T') + V('g'), None),
                ('T + kappa (ill-typed)', [2] + V('T') + V('kappa'), None),
                ('oro*g - u*u', [3, 4] + V('oro') + V('g') + [4] + V('u') + V('u'), DIMS['meter**2/second**2'])]
    xs = [float(v) for v in rng.integers(1, 40, size=len(nm)) / 4.0]
    for name, toks, want in formulas:
        ints = [len(nm)] + [e for n in nm for e in named[n]] + toks
        mo = ctx.model.call(1, ints, [sv, xs, [2.0]])
        if want is None:
            ctx.exact(f'dimension typing rejects {name}', [int(mo[0])], [0])
        else:
            ctx.exact(f'dimension typing of {name}', [int(v) for v in mo[:5]], [1] + list(want))
            ctx.exact(f'covariance of {name} (exact)', str(mo[7]), str(mo[8] * mo[6]))
    for _ in range(12):
        nv = int(rng.integers(2, 6)); dims = [pool[int(i)] for i in rng.integers(0, len(pool), size=nv)]
        toks = _rand_expr(rng, nv, 2, int(rng.integers(1, 5)))
        x = [float(v) for v in rng.integers(1, 64, size=nv) / 8.0]
        ints = [nv] + [e for d in dims for e in d] + toks
        mo = ctx.model.call(1, ints, [sv, x, [3.0, 0.5]])
        want, _ = _py_dim(toks, dims)
        if mo is None:
            ctx.exact('expression decodes', 'None', 'Some'); continue
        if want is None:
            ctx.exact('ill-typed expression rejected', [int(mo[0])], [0]); ctx.count('expr:ill-typed')
        else:
            ctx.exact('dimension of a well-typed expression', [int(v) for v in mo[:5]], [1] + list(want)); ctx.count('expr:well-typed')
            if int(mo[5]) == 1:
                ctx.exact('well-typed expression is covariant (exact rationals)', str(mo[7]), str(mo[8] * mo[6]))


# ---------------------------------------------------------------------------
# AST scan of the call graph
# ---------------------------------------------------------------------------
def scan_repo(repo):
    d = os.path.join(repo, 'dinosaur')
    files = sorted(f for f in os.listdir(d) if f.endswith('.py') and not f.endswith('_test.py'))
    trees, unparsed = {}, []
    for f in files:
        try:
            trees[f[:-3]] = ast.parse(open(os.path.join(d, f)).read())
        except SyntaxError:
            unparsed.append(f)
    # 1. module-level names bound to values non-dimensionalised under a fixed scale, and module-level scales
    consts, mscales = {}, {}
    for mod, t in trees.items():
        s, sc = set(), set()
        for node in t.body:
            if isinstance(node, (ast.Assign, ast.AnnAssign)) and node.value is not None:
                tg = [x.id for x in (node.targets if isinstance(node, ast.Assign) else [node.target]) if isinstance(x, ast.Name)]
                has = any(isinstance(c, ast.Call) and isinstance(c.func, ast.Attribute) and c.func.attr == 'nondimensionalize' for c in ast.walk(node.value))
                refs = any(isinstance(c, ast.Name) and c.id in s for c in ast.walk(node.value))
                if has or refs: s.update(tg)
                if mod != 'scales' and any(isinstance(c, ast.Attribute) and c.attr.endswith('_SCALE') for c in ast.walk(node.value)) and not has:
                    sc.update(tg)
        consts[mod] = s; mscales[mod] = sc

    def refers(mod, e, table):
        for c in ast.walk(e):
            if isinstance(c, ast.Name) and c.id in table.get(mod, ()): return True
            if isinstance(c, ast.Attribute) and isinstance(c.value, ast.Name) and c.attr in table.get(c.value.id, ()): return True
        return False
    # 2. functions with such defaults; 3. uses inside bodies
    funcs, body_uses = [], []

    def visit(mod, body, prefix, in_class):
        for node in body:
            if isinstance(node, (ast.FunctionDef, ast.AsyncFunctionDef)):
                ar = node.args; pos = ar.posonlyargs + ar.args
                defaults = [None] * (len(pos) - len(ar.defaults)) + list(ar.defaults)
                skip = 1 if in_class and pos and pos[0].arg in ('self', 'cls') else 0
                for i, (p, dflt) in enumerate(zip(pos, defaults)):
                    if dflt is not None and refers(mod, dflt, consts):
                        funcs.append(dict(module=mod, qualname=prefix + node.name, name=node.name, param=p.arg, index=i - skip, line=node.lineno, default=ast.unparse(dflt)))
                for p, dflt in zip(ar.kwonlyargs, ar.kw_defaults):
                    if dflt is not None and refers(mod, dflt, consts):
                        funcs.append(dict(module=mod, qualname=prefix + node.name, name=node.name, param=p.arg, index=None, line=node.lineno, default=ast.unparse(dflt)))
                for stmt in node.body:
                    for c in ast.walk(stmt):
                        hit = None
                        if isinstance(c, ast.Name) and isinstance(c.ctx, ast.Load) and (c.id in consts.get(mod, ()) or c.id in mscales.get(mod, ())):
                            hit = 'module-level scale-dependent constant ' + c.id
                        elif isinstance(c, ast.Attribute) and isinstance(c.value, ast.Name) and (
                                c.attr in consts.get(c.value.id, ()) or c.attr in mscales.get(c.value.id, ())):
                            hit = 'module-level scale-dependent constant ' + ast.unparse(c)
                        elif isinstance(c, ast.Attribute) and c.attr in ('DEFAULT_SCALE', 'ATMOSPHERIC_SCALE') and mod != 'scales':
                            hit = 'the fixed scale ' + ast.unparse(c)
                        if hit:
                            body_uses.append(f'dinosaur/{mod}.py:{c.lineno}: {prefix}{node.name} uses {hit} in its body')
            elif isinstance(node, ast.ClassDef):
                visit(mod, node.body, prefix + node.name + '.', True)
    for mod, t in trees.items():
        visit(mod, t.body, '', False)
    byname = {}
    for fn in funcs: byname.setdefault(fn['name'], []).append(fn)
    bad, ncalls = [], 0
    for mod, t in trees.items():
        for c in ast.walk(t):
            if isinstance(c, ast.Call):
                nm = c.func.id if isinstance(c.func, ast.Name) else c.func.attr if isinstance(c.func, ast.Attribute) else None
                if nm in byname:
                    ncalls += 1
                    star = any(isinstance(x, ast.Starred) for x in c.args)
                    kws = {k.arg for k in c.keywords}
                    for fn in byname[nm]:
                        ok = (fn['param'] in kws) or (fn['index'] is not None and not star and len(c.args) > fn['index'])
                        if not ok:
                            bad.append(f'dinosaur/{mod}.py:{c.lineno}: call of {fn["qualname"]} relies on the default {fn["param"]}={fn["default"]}')
    # numeric literal defaults of parameters that carry a dimension, and call sites relying on them
    lit, lit_new, litfuncs = [], [], {}
    pat = re.compile(DIMENSIONAL_PARAM)
    for mod, t in trees.items():
        for node in ast.walk(t):
            if isinstance(node, (ast.FunctionDef, ast.AsyncFunctionDef)):
                ar = node.args; pos = ar.posonlyargs + ar.args
                defaults = [None] * (len(pos) - len(ar.defaults)) + list(ar.defaults)
                skip = 1 if pos and pos[0].arg in ('self', 'cls') else 0
                items = [(i - skip, p, dv) for i, (p, dv) in enumerate(zip(pos, defaults))] + [(None, p, dv) for p, dv in zip(ar.kwonlyargs, ar.kw_defaults)]
                for i, p, dv in items:
                    v = dv.operand if isinstance(dv, ast.UnaryOp) else dv
                    if (isinstance(v, ast.Constant) and isinstance(v.value, (int, float)) and not isinstance(v.value, bool)
                            and v.value != 0 and pat.match(p.arg)):
                        key = (mod, node.name, p.arg, ast.unparse(dv))
                        msg = f'dinosaur/{mod}.py:{node.lineno}: {node.name}({p.arg}={ast.unparse(dv)})'
                        (lit if key in ALLOWED_LITERAL_DEFAULTS else lit_new).append(msg)
                        litfuncs.setdefault(node.name, []).append((i, p.arg, key in ALLOWED_LITERAL_DEFAULTS))
    lit_calls = []
    for mod, t in trees.items():
        for c in ast.walk(t):
            if isinstance(c, ast.Call):
                nm = c.func.id if isinstance(c.func, ast.Name) else c.func.attr if isinstance(c.func, ast.Attribute) else None
                for i, pn, allowed in litfuncs.get(nm, ()):
                    if pn not in {k.arg for k in c.keywords} and not (i is not None and len(c.args) > i):
                        lit_calls.append(f'dinosaur/{mod}.py:{c.lineno}: call of {nm} relies on the literal default {pn}')
    return dict(consts={k: sorted(v) for k, v in consts.items() if v}, module_scales={k: sorted(v) for k, v in mscales.items() if v},
                funcs=funcs, ncalls=ncalls, bad=sorted(set(bad)), body_uses=sorted(set(body_uses)), unparsed=unparsed, literal_defaults=lit, literal_defaults_new=lit_new,
                literal_default_calls=lit_calls)


def r_ast_scan(ctx, a):
    repo = os.environ.get('DINOSAUR_REPO', '/repo')
    r = scan_repo(repo)
    ctx.table_obligation('every non-test module of dinosaur/ parses', not r['unparsed'], r['unparsed'])
    ctx.table_obligation('every call site inside dinosaur/ passes scale-dependent default arguments explicitly',
                         not r['bad'], {'violations': r['bad'], 'functions': [f'{f["module"]}.{f["qualname"]}({f["param"]}={f["default"]})' for f in r['funcs']],
                                        'call_sites_checked': r['ncalls']})
    ctx.table_obligation('module-level non-dimensional constants and fixed scales are not used inside function bodies',
                         not r['body_uses'], r['body_uses'])
    ctx.count('scan:functions_with_scale_dependent_defaults', len(r['funcs'])); ctx.count('scan:call_sites', r['ncalls'])
    ctx.table_obligation('no numeric literal default for a dimensional parameter beyond the documented exceptions',
                         not r['literal_defaults_new'], {'new': r['literal_defaults_new'], 'documented exceptions present': r['literal_defaults']})
    ctx.count('scan:documented_literal_defaults', len(r['literal_defaults']))
    if r['literal_defaults'] or r['literal_default_calls']:
        ctx.notes.append({'documented literal defaults of dimensional parameters (user-parameter defaults, not claimed as violations)': r['literal_defaults'],
                          'call sites relying on them (scale-dependent behaviour of the caller)': r['literal_default_calls']})


# ---------------------------------------------------------------------------
# whole-state model under two scales (C12_whole_state_tendencies_covariant / C12_concrete_operators_homogeneous)
# ---------------------------------------------------------------------------
def _dyadic_scale(rng):
    """a non-default scale whose base units are powers of two (non-dimensionalisation of dyadic data stays dyadic: keeps the
    exact rational model affordable), log-uniform over about 6 decades each like _rand_scale."""
    lo = [7, 0, -10, -10]
    return [float(2.0 ** int(l + rng.integers(0, 20))) for l in lo]


def _dy(x, bits=7):
    """round to `bits` significant binary digits relative to the largest entry (dyadic SI data)"""
    x = np.asarray(x, dtype=np.float64); mx = float(np.max(np.abs(x)))
    if mx == 0: return x
    q = 2.0 ** (int(np.floor(np.log2(mx))) - bits)
    return np.round(x / q) * q


def _flat4(st):
    return [np.asarray(st.vorticity, dtype=np.float64), np.asarray(st.divergence, dtype=np.float64),
            np.asarray(st.temperature_variation, dtype=np.float64), np.asarray(st.log_surface_pressure, dtype=np.float64)]


def r_whole_state_scales(ctx, a):
    m = M(); pe = m['pe']; ti = m['ti']
    A = lambda x: float(np.max(np.abs(np.asarray(x, dtype=np.float64)))) if np.size(x) else 0.0
    rng = np.random.Generator(np.random.PCG64(a['seed']))
    K = a['K']
    p = _pe_problem(rng, 'dry', K, gridkw=a['grid'])
    for k_ in ('vort', 'div', 'temp', 'oro', 'ps'):
        p[k_] = _dy(p[k_], 7 if k_ != 'ps' else 12)
    if a.get('ntr', 0):
        # passive dimensionless tracers (C12_whole_state_tracers_covariant): compared through the SI oracle
        g0_ = _mkgrid(**a['grid'])
        p['tracers'] = {'tracer%d' % i_: _dy(dyn.modal_field(rng, g0_, (K,), 2, False, 0.004)) for i_ in range(int(a['ntr']))}
        for t_ in p['tracers']:
            p['tracers'][t_][:, 0, 0] += 0.015625
    p['tref'] = np.round(p['tref'])
    labels = a['scales']
    R = {k: [] for k in ('explicit', 'implicit', 'inverse', 'steps')}
    fields = ['vorticity', 'divergence', 'temperature_variation', 'log_surface_pressure']
    for idx, sv in enumerate(labels):
        specs, g, c, st, eq = _pe_setup(sv, p, 'dry')
        dt = float(_ND(specs, p['dt'], 'second')); eta = 0.5 * dt
        ex = eq.explicit_terms(st); im = eq.implicit_terms(st); inv_st = eq.implicit_inverse(st, eta)
        R['explicit'].append(_pe_tend_si(specs, ex, '', _gmax(ex)))
        R['implicit'].append(_lnps_noise_atol(_pe_tend_si(specs, im, '', _gmax(im)), specs, g, eq, st))
        R['inverse'].append(_pe_state_si(specs, g, inv_st, 'eta=0.5dt: ', _gmax(st)))
        # okS of C12_whole_state_step_covariant: np.linalg.inv of the implicit matrices is two-sided, under EVERY scale, for
        # the step sizes used below (0.5 dt: implicit_inverse / crank_nicolson_rk2; dt: backward_forward_euler)
        Tref_nd = np.asarray(eq.reference_temperature, dtype=np.float64)
        for fr in (0.5, 1.0):
            mat_ = np.asarray(pe._get_implicit_term_matrix(fr * dt, c, Tref_nd, specs.kappa, specs.R), dtype=np.float64)
            inv_ = np.linalg.inv(mat_); n_ = mat_.shape[-1]
            res_ = max(A(np.einsum('lij,ljk->lik', inv_, mat_) - np.eye(n_)), A(np.einsum('lij,ljk->lik', mat_, inv_) - np.eye(n_)))
            ctx.table_obligation('okS: np.linalg.inv(implicit_matrix) is a two-sided inverse under every scale (whole-state step theorems)',
                                 res_ <= 2.0 ** -30 * max(1.0, A(inv_) * A(mat_)), {'residual': res_, 'scale': sv, 'step/dt': fr})
        ctx.table_obligation('th0_nz, thK_nz: top and bottom layer thickness non-zero',
                             bool(c.vertical.layer_thickness[0] != 0 and c.vertical.layer_thickness[-1] != 0), None)
        steps = Out()
        for integ in a.get('integrators', []):
            stepf = ti.step_with_filters(dyn.integrator(integ, eq, dt), [])
            s_ = st
            for n_ in range(int(a.get('nsteps', 2))):
                s_ = stepf(s_)
                steps.merge(_pe_state_si(specs, g, s_, f'{integ} step {n_ + 1}: ', (n_ + 1) * _gmax(s_, st)))
        R['steps'].append(steps)
        ctx.table_obligation('r_nz, R_nz of C12_whole_state_tendencies_covariant: non-dimensional radius and gas constant are non-zero',
                             bool(g.radius != 0 and specs.R != 0 and np.isfinite(g.radius)), {'radius': float(g.radius), 'R': float(specs.R), 'scale': sv})
        if idx not in a['model_at']:
            continue
        # ---- the theorem's model (extracted Model/PrimEqFull.v) at this scale vs the code ----
        vert = c.vertical
        Mw, L = g.longitude_wavenumbers, g.total_wavenumbers
        I, Jn = g.nodal_shape; Rr = g.modal_shape[0]
        basis = g.spherical_harmonics.basis
        tf, tp, tw = np.asarray(basis.f), np.asarray(basis.p), np.asarray(basis.w)
        ta, tb = (np.asarray(t) for t in g._derivative_recurrence_weights)
        sec2 = np.asarray(g.sec2_lat); sin_lat = np.asarray(g.nodal_axes[1])
        ok_shapes = (g.modal_shape == (2 * Mw - 1, L) and tf.shape == (I, Rr) and tp.shape == (Rr, Jn, L) and tw.shape == (Jn,)
                     and ta.shape == (Rr, L) and tb.shape == (Rr, L) and sec2.shape == (Jn,) and sin_lat.shape == (Jn,))
        ctx.exact('whole state under a scale: table shapes of the reference layout', bool(ok_shapes), True)
        if not ok_shapes: continue
        Tref = np.asarray(eq.reference_temperature, dtype=np.float64); oro = np.asarray(eq.orography, dtype=np.float64)
        vo, dv, Tp, lnps = _flat4(st); lnps2 = lnps.reshape(Rr, L)
        ls = np.log(vert.centers); th = vert.layer_thickness
        ints = [Mw, L, I, Jn, K, 0]
        base = [tf.ravel(), tp.ravel(), tw, ta.ravel(), tb.ravel(), sec2, sin_lat,
                [float(g.radius), float(specs.angular_velocity), float(specs.g), float(specs.R), float(specs.kappa), eta],
                ls, np.asarray(p['b'], dtype=np.float64), Tref, oro.ravel(), vo.ravel(), dv.ravel(), Tp.ravel(), lnps2.ravel(), []]
        # magnitudes of the terms (bounds, all in the non-dimensional units of this scale)
        aux = pe.compute_diagnostic_state(st, c)
        u, v = (np.asarray(t) for t in aux.cos_lat_u)
        gx, gy = (np.asarray(t)[0] for t in aux.cos_lat_grad_log_sp)
        nvo, ndv, nT = np.asarray(aux.vorticity), np.asarray(aux.divergence), np.asarray(aux.temperature_variation)
        GM = float(np.max(np.einsum('j,ia,ajl->al', np.abs(tw), np.abs(tf), np.abs(tp))))
        GD = ((L + 2) * (A(ta) + A(tb)) + Mw) / float(g.radius)
        lam = np.asarray(g.laplacian_eigenvalues)
        alpha = pe.get_sigma_ratios(vert)
        cmin = float(np.min(vert.center_to_center)) if K > 1 else 1.0
        S2 = A(sec2); fc = 2 * abs(float(specs.angular_velocity))
        U = (A(u) * A(gx) + A(v) * A(gy)) * S2; G = A(ndv) + U; SD = 2 * G
        VT = lambda w_, x_: w_ * 2 * x_ / cmin
        GP = 2 * A(alpha) * G / float(np.min(th))
        TT = A(Tref) + A(nT)
        S_ad = float(specs.kappa) * TT * (U + GP)
        S_tot = A(nT) * A(ndv) + VT(SD, A(nT)) + VT(SD, A(Tref)) + S_ad
        S_c = (A(u) + A(v)) * (A(nvo) + fc) * S2 + (VT(SD, max(A(u), A(v))) + float(specs.R) * A(nT) * max(A(gx), A(gy))) * S2
        S_ke = (A(u) ** 2 + A(v) ** 2) * S2
        S_hs = max(A(u), A(v)) * A(nT) * S2
        sc_e = [GM * S_c * GD, GM * S_c * GD + GM * S_ke * A(lam) + float(specs.g) * A(oro) * A(lam), GM * (S_tot + S_hs * GD), GM * U]
        sc_e = [s_ + 1e-300 for s_ in sc_e]
        hs = float(specs.kappa) * A(Tref) * 2 * A(alpha) / float(np.min(th)) + 2 * A(np.diff(Tref)) / (2 * float(np.min(th))) + 1e-300
        sc_i = [1.0, A(lam) * (float(specs.R) * A(alpha) * 2 * K * A(Tp) * 8 + float(specs.R) * A(Tref) * A(lnps)) + 1e-300,
                hs * K * A(dv) * 8 + 1e-300, A(dv) + 1e-300]
        n3 = K * Rr * L; cuts = [n3, n3, n3, Rr * L]
        def split(ml):
            out = []; pos = 0
            for c_ in cuts:
                out.append(ml[pos:pos + c_]); pos += c_
            return out
        tag = 'whole state under scale #%d' % idx
        me = ctx.model.call(120, ints, base)
        ctx.exact(tag + ': the model accepts the configuration (explicit_terms)', me is not None and len(me) == sum(cuts), True)
        if me is not None and len(me) == sum(cuts):
            for x_, y_, s_, n_ in zip(_flat4(ex), split(me), sc_e, fields):
                ctx.corr(tag + ': explicit_terms ' + n_, x_, y_, scale=s_)
        mi = ctx.model.call(121, ints, base)
        if mi is not None and len(mi) == sum(cuts):
            for x_, y_, s_, n_ in zip(_flat4(im), split(mi), sc_i, fields):
                ctx.corr(tag + ': implicit_terms ' + n_, x_, y_, scale=s_)
        mat = np.asarray(pe._get_implicit_term_matrix(eta, c, Tref, specs.kappa, specs.R), dtype=np.float64)
        inv = np.linalg.inv(mat)
        res = max(A(np.einsum('lij,ljk->lik', inv, mat) - np.eye(2 * K + 1)), A(np.einsum('lij,ljk->lik', mat, inv) - np.eye(2 * K + 1)))
        ctx.table_obligation('np.linalg.inv(implicit_matrix) is a two-sided inverse under the scale (step 0.5 dt)',
                             res <= 2.0 ** -30 * max(1.0, A(inv) * A(mat)), {'residual': res, 'scale': sv})
        mo = ctx.model.call(122, ints, base + [inv.ravel()])
        if mo is not None and len(mo) == sum(cuts):
            svv = A(inv) * (2 * K + 1) * max(A(dv), A(Tp), A(lnps))
            sc_v = [A(vo) + 1e-300, svv, svv, svv]
            for x_, y_, s_, n_ in zip(_flat4(inv_st), split(mo), sc_v, fields):
                ctx.corr(tag + ': implicit_inverse ' + n_, x_, y_, scale=s_)
        ctx.count('whole_state_scales:K=%d' % K)
    _cmp(ctx, 'whole state (tiny real grid): explicit_terms equal in SI under both scales', R['explicit'], labels)
    _cmp(ctx, 'whole state (tiny real grid): implicit_terms equal in SI under both scales', R['implicit'], labels)
    _cmp(ctx, 'whole state (tiny real grid): implicit_inverse (0.5 dt) equal in SI under both scales', R['inverse'], labels)
    if a.get('integrators'):
        _cmp(ctx, 'whole state (tiny real grid): time steps (C12_whole_state_step_covariant) equal in SI under both scales', R['steps'], labels)


RUNNERS = {'grid_routes': r_grid_routes, 'pe_extreme': r_pe_extreme, 'sw_extreme': r_sw_extreme, 'dfi': r_dfi, 'winds': r_winds, 'threshold_scan': r_threshold_scan,
           'ast_scan': r_ast_scan, 'units': r_units, 'sigma_homog': r_sigma_homog, 'nodal_homog': r_nodal_homog, 'moist_homog': r_moist_homog, 'column_homog': r_column_homog,
           'column_matrix': r_column_matrix, 'expr': r_expr, 'pe': r_pe,
           'held_suarez': r_held_suarez, 'shallow_water': r_shallow_water, 'filters': r_filters, 'helpers': r_helpers,
           'init_states': r_init_states, 'radiation': r_radiation, 'whole_state_scales': r_whole_state_scales}
