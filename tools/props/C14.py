"""C14 - stepping and scan combinators (dinosaur/time_integration.py):
correspondence of Model/Combinators.v with the real combinators on exactly
representable data (small integers / dyadic rationals held in int64/float64
arrays, pytree states), and the property's clauses evaluated on the
implementation against plain python loops (incl. gradients of nested vs flat
scan)."""
import itertools, math
import numpy as np
from fractions import Fraction
from harness import util

THEOREMS = ['C14_scan_sequential', 'C14_repeated_iter', 'C14_filters_in_order', 'C14_trajectory_frames',
            'C14_nested_scan_eq_scan', 'C14_nested_scan_eq_scan_noxs', 'C14_nested_accepts_spec',
            'C14_nested_scan_rejects', 'C14_accumulate_is_sum', 'C14_dfi_formula', 'C14_dfi_fixed_point',
            'C14_time_reversed', 'C14_hyps_satisfiable',
            'C14_model_is_source']
LEVEL = 'proof'
LEVEL_TEXT = ('machine-checked theorems (Coq) for every carry/input/output type, every step function, every '
              '(outer, inner, start_with_input), every filter list, every factorisation of the scan length and every '
              'weight list over any field: repeated = n-fold iterate, trajectory frames/final state, filters in order, '
              'nested scan = flat scan with the exact acceptance predicate, accumulate_repeated = weighted sum of iterates, '
              'DFI formula and fixed point; the Gallina model is executed (extraction, exact rationals) against the real '
              'combinators on exact integer/dyadic pytree data')
LEVEL_NOTE = ('theorems are about the Gallina model Model/Combinators.v in which lax.scan is its documented list semantics, '
              'jax.checkpoint the identity and reshape row-major chunking; sinc values and N=round(time_span/(2dt)) enter as '
              'tables; gradient equality follows from equality of the functions and is additionally tested numerically; '
              'model tied to the code by differential correspondence')
TECHNIQUE = 'interactive proof (induction over lists / step counts / factorisations) + extraction-based differential testing'

_jax = None
def J():
    global _jax
    if _jax is None:
        jax = util.setup_jax()
        import jax.numpy as jnp
        from dinosaur import time_integration as ti
        _jax = (jax, jnp, ti)
    return _jax


BOUND = 2 ** 50   # all intermediate integers stay below this: float64/int64 arithmetic is exact


# ---------------------------------------------------------------------------
# plain python (exact) reference loops
# ---------------------------------------------------------------------------
def mv(A, u): return [sum(a * x for a, x in zip(row, u)) for row in A]
def vadd(u, v): return [a + b for a, b in zip(u, v)]
def aff(A, b, u): return vadd(mv(A, u), b)
def filt(p, u, un): return [p[0] * a + p[1] * c + p[2] for a, c in zip(u, un)]
def step_f(A, b, fl, u):
    un = aff(A, b, u)
    for p in fl: un = filt(p, u, un)
    return un
def vmax(*vs): return max([abs(x) for v in vs for x in v] + [0])


def loop_states(A, b, fl, x0, n):
    out = [list(x0)]
    for _ in range(n): out.append(step_f(A, b, fl, out[-1]))
    return out


def loop_scan(A, b, P, Q, init, xs):
    c = list(init); ys = []
    for x in xs:
        c2 = vadd(aff(A, b, c), x)
        ys.append(vadd(mv(P, c2), mv(Q, c)))
        c = c2
    return c, ys


# ---------------------------------------------------------------------------
# generators
# ---------------------------------------------------------------------------
def rand_mat(rng, rows, cols, rowsum=2):
    A = [[0] * cols for _ in range(rows)]
    for r in range(rows):
        if rowsum >= 2 and rng.integers(0, 5) == 0:
            A[r][int(rng.integers(0, cols))] = int(rng.choice([-2, 2]))
        else:
            k = int(rng.integers(1, min(cols, rowsum) + 1))
            for c in rng.choice(cols, size=k, replace=False):
                A[r][int(c)] = int(rng.choice([-1, 1]))
    return A


def rand_vec(rng, d, lo=-4, hi=4): return [int(v) for v in rng.integers(lo, hi + 1, size=d)]


def rand_filters(rng, r, tame=False):
    out = []
    for _ in range(r):
        if tame: out.append([int(rng.integers(-1, 2)), int(rng.choice([-1, 1])), int(rng.integers(-3, 4))])
        else: out.append([int(rng.integers(-1, 3)), int(rng.choice([-1, 1, 2])), int(rng.integers(-3, 4))])
    return out


def rand_system(rng, d, r, nsteps):
    """Affine step + filters whose iterates stay below BOUND for nsteps steps."""
    for attempt in range(6):
        tame = attempt >= 2
        A = rand_mat(rng, d, d, 1 if (tame and r) else 2); b = rand_vec(rng, d); x0 = rand_vec(rng, d)
        fl = rand_filters(rng, r, tame)
        if attempt >= 4: fl = [[0, int(rng.choice([-1, 1])), p[2]] for p in fl]
        st = loop_states(A, b, fl, x0, nsteps)
        if max(vmax(s) for s in st) < BOUND // 64:
            return A, b, x0, fl
    raise RuntimeError('no bounded system found')


def ordered_factorisations(n, minf=2):
    if n == 1: return [[]]
    out = []
    for f in range(minf, n + 1):
        if n % f == 0:
            for rest in ordered_factorisations(n // f, minf): out.append([f] + rest)
    return out


KINDS = ['array', 'dict', 'tuple']
KINDS2 = ['array', 'dict', 'tuple', 'col']         # d >= 2 ('col': rank-2 leaf of shape (d, 1))
KINDS1 = ['array', 'zerod', 'col']                 # d == 1 ('zerod': 0-d array state)
XKINDS = ['array', 'dict', 'scalar', 'mat']        # 'mat': per-step inputs of rank 2, leaf shape (n, d, 2)
OKINDS = ['array', 'tuple', 'none', 'dictmat']     # 'dictmat': per-step output {'a': (m,), 'M': (m, 2)}
DTYPES = ['f', 'i', 'h']                           # float64, int64, float32 (exact on small integers)


def pick_kind(d, i): return KINDS1[i % 3] if d == 1 else KINDS2[i % 4]


def gen_nested_case(rng, lengths, n_xs, has_xs, length, d=None, kind=None, xkind=None, okind=None, dtype=None, xform=None, tame=False):
    d = d or int(rng.integers(1, 4))
    kind = kind or pick_kind(d, int(rng.integers(0, 12)))
    okind = okind or OKINDS[int(rng.integers(0, 4))]
    m = 0 if okind == 'none' else int(rng.integers(2, 4)) if okind in ('tuple', 'array2') else int(rng.integers(1, 4))
    if okind == 'array2': okind = 'array'
    xkind = xkind or XKINDS[int(rng.integers(0, 4))]
    A = rand_mat(rng, d, d, 1 if tame else 2); b = rand_vec(rng, d); init = rand_vec(rng, d)   # tame: growth linear in the step count
    P = rand_mat(rng, m, d) if m else []; Q = rand_mat(rng, m, d) if m else []
    xs = None
    if has_xs:
        if xkind == 'scalar':
            s = rand_vec(rng, n_xs); xs = {'s': s}
        elif xkind == 'dict':
            xs = {'s': rand_vec(rng, n_xs), 'v': [rand_vec(rng, d) for _ in range(n_xs)]}
        elif xkind == 'mat':
            xs = {'w': [[rand_vec(rng, 2) for _ in range(d)] for _ in range(n_xs)]}
        elif xkind == 'many':      # one scanned leaf per state component (>= 9 leaves for d >= 9)
            xs = {'k%02d' % j: rand_vec(rng, n_xs) for j in range(d)}
        else:
            xs = {'v': [rand_vec(rng, d) for _ in range(n_xs)]}
    return dict(d=d, m=m, A=A, b=b, P=P, Q=Q, init=init, xs=xs, xkind=xkind, n_xs=n_xs, length=length,
                lengths=[int(l) for l in lengths], kind=kind, okind=okind,
                xform=xform or ['jnp', 'np_view'][int(rng.integers(0, 2))],
                dtype=dtype or (DTYPES[int(rng.integers(0, 3))] if math.prod(lengths) <= 8 else DTYPES[int(rng.integers(0, 2))]))


def generate(ctx):
    rng = ctx.rng
    quick = ctx.tier == 'quick'
    # --- lax.scan itself against the list model ---------------------------------
    for i in range(4 if quick else 12):
        n = [0, 1, 3, 5][i % 4]
        yield 'scan', gen_nested_case(rng, [n], n, i % 3 != 2, None)
    # --- repeated ---------------------------------------------------------------
    for n in ([0, 1, 2, 3, 5] if quick else [0, 1, 2, 3, 4, 5, 6, 7, 12, 24, 36]):
        for rep in range(1 if quick else 2):
            d = int(rng.integers(1, 4))
            A, b, x0, _ = rand_system(rng, d, 0, n)
            ctx.count(f'repeated n={n}')
            yield 'repeated', dict(d=d, A=A, b=b, x0=x0, n=n, kind=pick_kind(d, n + rep),
                                   dtype=DTYPES[(n + rep) % 3] if n <= 8 else DTYPES[(n + rep) % 2])
    # --- step_with_filters ------------------------------------------------------
    for r in range(4):
        for rep in range(2 if quick else 6):
            d = int(rng.integers(1, 4))
            A, b, x0, fl = rand_system(rng, d, r, 1)
            ctx.count(f'filters r={r}')
            yield 'filters', dict(d=d, A=A, b=b, x0=x0, filters=fl, kind=pick_kind(d, r + rep))
    # --- trajectory_from_step ---------------------------------------------------
    if quick:
        pairs = [(o, i) for o in (1, 2, 3, 6) for i in (1, 2, 3, 6)] + [(0, 2), (2, 0), (4, 5), (5, 1), (1, 4)]
    else:
        pairs = [(o, i) for o in range(1, 7) for i in range(1, 7)] + [(0, 1), (0, 3), (3, 0), (1, 0), (0, 0), (7, 5), (12, 3)]
    cnt = 0
    for pi, (outer, inner) in enumerate(pairs):
        for swi in (0, 1):
            for has_post in (((pi + swi) % 2,) if quick else (0, 1)):
                cnt += 1
                d = int(rng.integers(1, 4)); r = cnt % 4 if (outer * inner <= 18) else 0
                A, b, x0, fl = rand_system(rng, d, r, outer * inner)
                post = None
                if has_post:
                    m = int(rng.integers(1, 4)); post = dict(m=m, P=rand_mat(rng, m, d), p=rand_vec(rng, m), tree=int(rng.integers(0, 2)))
                ctx.count(f'traj outer={outer} inner={inner}'); ctx.count(f'traj swi={swi} post={has_post} r={r}')
                small = max(vmax(s_) for s_ in loop_states(A, b, fl, x0, outer * inner)) < 2 ** 18
                yield 'traj', dict(d=d, A=A, b=b, x0=x0, outer=outer, inner=inner, swi=swi, post=post, filters=fl,
                                   kind=pick_kind(d, cnt), again=int(cnt % 3 == 0), jit=int(cnt % 8 == 5),
                                   dtype=DTYPES[(cnt // 3) % 3] if small else DTYPES[(cnt // 3) % 2])
    for j, (outer, inner, d, kind) in enumerate([(50, 40, 2, 'dict'), (3, 700, 9, 'many')] if quick else
                                                [(50, 40, 2, 'dict'), (3, 700, 9, 'many'), (1500, 1, 3, 'tuple'), (1, 2003, 1, 'zerod'), (37, 41, 10, 'many')]):
        A = rand_mat(rng, d, d, 1); b = rand_vec(rng, d); x0 = rand_vec(rng, d)
        post = dict(m=2, P=rand_mat(rng, 2, d), p=rand_vec(rng, 2), tree=j % 2) if j % 2 == 0 else None
        ctx.count('traj long')
        yield 'traj', dict(d=d, A=A, b=b, x0=x0, outer=outer, inner=inner, swi=j % 2, post=post, filters=[[0, 1, 1]] * (j % 2),
                           kind=kind, again=0, jit=0, dtype=['f', 'i'][j % 2])
    for j, (n, d, kind) in enumerate([(3001, 9, 'many')] if quick else [(3001, 9, 'many'), (1024, 2, 'dict'), (4999, 1, 'zerod')]):
        yield 'repeated', dict(d=d, A=rand_mat(rng, d, d, 1), b=rand_vec(rng, d), x0=rand_vec(rng, d), n=n, kind=kind, dtype=['i', 'f'][j % 2])
    # --- nested_checkpoint_scan: every ordered factorisation --------------------
    ns = [1, 2, 4, 6, 8, 12] if quick else list(range(1, 25))
    cnt = 0
    for n in ns:
        facs = ordered_factorisations(n)
        facs = [f if f else [1] for f in facs]
        extra = []
        for f in facs[: (1 if quick else 3)]:       # sprinkle unit factors
            g = list(f); g.insert(int(rng.integers(0, len(g) + 1)), 1); extra.append(g)
        if not quick and n > 1: extra.append([1] + facs[-1] + [1])
        for lengths in facs + extra:
            cnt += 1
            has_xs = cnt % 3 != 0
            length = n if cnt % 2 == 0 else None
            ctx.count(f'nested n={n}'); ctx.count(f'nested depth={len(lengths)}'); ctx.count(f'nested xs={int(has_xs)} length={length is not None}')
            deep = ['tuple', 'dictmat', 'array2'][cnt % 3] if len(lengths) >= 3 else None
            yield 'nested', gen_nested_case(rng, lengths, n, has_xs, length, okind=deep,
                                            xkind=XKINDS[cnt % 4] if len(lengths) >= 3 else None)
    # >= 3 levels with rank-2 / pytree per-step outputs and rank-2 inputs, every state kind
    for j, lengths in enumerate([[2, 2, 2], [2, 3, 2], [3, 1, 2, 2]] if quick else
                                [[2, 2, 2], [2, 3, 2], [3, 1, 2, 2], [2, 2, 3], [4, 2, 3], [2, 2, 2, 2], [3, 2, 2, 2], [2, 1, 2, 1, 3]]):
        n = math.prod(lengths)
        yield 'nested', gen_nested_case(rng, lengths, n, True, [None, n][j % 2], d=2 + j % 2, kind=KINDS2[j % 4], xkind='mat',
                                        okind='dictmat', xform=['np_view', 'jnp'][j % 2])
        yield 'nested', gen_nested_case(rng, lengths, n, j % 2 == 0, n, d=1, kind=KINDS1[1 + j % 2], xkind='dict', okind='tuple')
    # long scans: thousands of steps, many nesting levels, prime lengths, >= 9 leaves in carry / inputs
    longs = [([2] * 11, 'array', 'dict', 2), ([1009], 'many', 'many', 9), ([7, 11, 13], 'dict', 'mat', 3)]
    if not quick:
        longs += [([2, 3, 5, 7, 11], 'many', 'array', 9), ([3, 1009], 'tuple', 'scalar', 2), ([4096], 'col', 'many', 3),
                  ([1, 1, 2, 1, 1009], 'many', 'many', 10), ([2] * 12, 'zerod', 'dict', 1), ([53, 59], 'many', 'dict', 12)]
    for j, (lengths, kind, xkind, d) in enumerate(longs):
        n = math.prod(lengths)
        ctx.count('nested long n=%d depth=%d' % (n, len(lengths)))
        yield 'nested', gen_nested_case(rng, lengths, n, j % 3 != 2 or xkind == 'many', [None, n][j % 2], d=d, kind=kind, xkind=xkind,
                                        okind=['array', 'dictmat', 'tuple'][j % 3], dtype=['f', 'i'][j % 2], tame=True)
    # zero-length levels, as coded: tolerated only in the last position
    for lengths, n in [([3, 0], 0), ([0], 0), ([2, 2, 0], 0)]:
        yield 'nested', gen_nested_case(rng, lengths, n, True, None, okind='array')
        yield 'nested', gen_nested_case(rng, lengths, n, False, None, okind='array')
    # rejected calls: product mismatch with xs / with length, empty factorisation, inner zero level
    bad = [([2, 2], 6, True, None), ([2, 3], 6, True, 5), ([2, 3], 6, False, 5), ([3, 3], 6, True, 6), ([], 1, True, None),
           ([], 1, False, None), ([], 1, False, 1), ([0, 3], 0, True, None), ([0, 3], 0, False, None), ([2, 0, 3], 0, False, 0),
           ([6], 5, True, None), ([2, 3], 7, True, 6), ([7], 6, True, 6), ([2, 3], 5, True, None), ([4, 2], 6, True, None)]
    for _ in range(0 if quick else 30):
        k = int(rng.integers(1, 4)); lengths = [int(v) for v in rng.integers(1, 5, size=k)]
        n = max(0, math.prod(lengths) + int(rng.integers(-2, 3)))
        bad.append((lengths, n, bool(rng.integers(0, 2)), [None, n, math.prod(lengths)][int(rng.integers(0, 3))]))
    for lengths, n, has_xs, length in bad:
        ctx.count('nested malformed')
        yield 'nested', gen_nested_case(rng, lengths, n, has_xs, length, okind='array')
    # --- gradients: nested vs flat vs python loop -------------------------------
    gfacs = [[6], [2, 3], [3, 2], [2, 2, 2], [1, 4, 1]] if quick else \
        [f for n in (4, 6, 8, 12, 16, 24) for f in ordered_factorisations(n)][::2] + [[1, 5], [5, 1], [1, 1, 3]]
    for i, lengths in enumerate(gfacs):
        n = math.prod(lengths); d = 2 + i % 2
        yield 'nested_grad', dict(d=d, lengths=lengths, has_xs=int(i % 3 != 2), kind=KINDS[i % 3],
                                  A=(rng.integers(-8, 9, size=(d, d)) / 8).tolist(), init=(rng.integers(-8, 9, size=d) / 8).tolist(),
                                  xs=(rng.integers(-8, 9, size=(n, d)) / 8).tolist(), cw=(rng.integers(-8, 9, size=d) / 8).tolist(),
                                  yw=(rng.integers(-8, 9, size=(n, d)) / 8).tolist())
    # --- user-supplied scan_fn / outer_scan_fn / inner_scan_fn / checkpoint_fn -----
    cs = [(2, 3, [2, 3], 'both'), (3, 1, [2, 2, 2], 'outer'), (2, 2, [3, 2], 'inner'), (1, 4, [4], 'both'), (3, 2, [1, 3, 2], 'inner')]
    if not quick: cs += [(4, 3, [2, 3, 2], 'both'), (2, 5, [2, 2, 2, 2], 'outer'), (5, 2, [5, 1], 'inner'), (1, 1, [1], 'both')]
    for j, (outer, inner, lengths, mix) in enumerate(cs):
        d = 1 + j % 3
        A, b, x0, _ = rand_system(rng, d, 0, max(outer * inner, math.prod(lengths)))
        yield 'custom_scan', dict(d=d, A=A, b=b, x0=x0, outer=outer, inner=inner, swi=j % 2, lengths=lengths, mix=mix,
                                  weights=[float(v) / 4 for v in rng.integers(-8, 9, size=1 + j)], kind=pick_kind(d, j))
    # --- accumulate_repeated ----------------------------------------------------
    structured = [[0.0, 0.0, 0.0, 1.0], [1.0, 0.0, 0.0, 0.0], [1.0, 1.0, 1.0], [0.0, 0.0], [0.25]]
    for i, w in enumerate(structured if quick else structured + [[0.0] * 7 + [2.0], [1.0] * 9]):
        d = 1 + i % 3
        A, b, x0, _ = rand_system(rng, d, 0, len(w))
        yield 'accumulate', dict(d=d, A=A, b=b, x0=x0, weights=w, kind=pick_kind(d, i), wform=['np_ro', 'jnp'][i % 2])
    for i, n in enumerate([0, 1, 2, 5, 9] if quick else [0, 1, 2, 3, 4, 5, 6, 9, 12, 17, 24]):
        d = int(rng.integers(1, 4))
        A, b, x0, _ = rand_system(rng, d, 0, n)
        w = [float(v) / 4 for v in rng.integers(-8, 9, size=n)]
        ctx.count(f'accumulate n={n}')
        yield 'accumulate', dict(d=d, A=A, b=b, x0=x0, weights=w, kind=pick_kind(d, i), wform=['jnp', 'np_ro'][i % 2])
    for j, (n, d, kind) in enumerate([(1009, 9, 'many')] if quick else [(1009, 9, 'many'), (2048, 2, 'tuple'), (3000, 12, 'many')]):
        yield 'accumulate', dict(d=d, A=rand_mat(rng, d, d, 1), b=rand_vec(rng, d), x0=rand_vec(rng, d),
                                 weights=[float(v) / 4 for v in rng.integers(-8, 9, size=n)], kind=kind, wform=['np_ro', 'jnp'][j % 2])
    # non-dyadic weights and data (a single-precision intermediate would show at 1e-8): decided at the 2^-36 policy
    for j in range(2 if quick else 6):
        d = 1 + j % 3; n = [7, 12, 40][j % 3]
        yield 'accumulate', dict(d=d, A=rand_mat(rng, d, d, 1), b=[float(v) / 10 for v in rng.integers(-9, 10, size=d)],
                                 x0=[float(v) / 7 for v in rng.integers(-9, 10, size=d)],
                                 weights=[float(v) / 30 for v in rng.integers(-29, 30, size=n)], kind=pick_kind(d, j), wform=['jnp', 'np_ro'][j % 2],
                                 nondyadic=1)
    # --- digital filter initialisation -----------------------------------------
    # (time_span, cutoff, dt): half-even rounding cases, N = 0, negative time direction, dt over decades
    cfgs = [(6.0, 6.0, 0.5), (5.0, 4.0, 0.5), (7.0, 5.0, 1.0), (5.0, 6.0, 1.0), (0.4, 1.0, 0.5), (-3.0, 2.0, -0.5), (0.006, 0.005, 0.001),
            (3.0, 2.5, 0.25), (1.0, 1.0, 0.5), (3.0, 3.0, 0.5), (600.0, 500.0, 100.0), (12.0, 10.0, 0.25), (-5.0, -4.0, -0.5)]
    # time_span/(2 dt) one ulp below an integer in floating point (2.9999999999999996, 5.999999999999999, ...): round, not truncation
    ulp = [(0.6, 0.5, 0.1), (1.4, 1.0, 0.1), (1.2, 1.5, 0.1), (0.3, 0.3, 0.05)]
    # the same problem in another time unit: (time_span, cutoff, dt) * 2^k and rates * 2^-k
    scaled = [(6.0, 6.0, 0.5, -30), (5.0, 4.0, 0.5, 30), (7.0, 5.0, 1.0, 20), (3.0, 2.5, 0.25, -10), (0.6, 0.5, 0.1, 25), (-3.0, 2.0, -0.5, -20)]
    full = [c + (0,) for c in (cfgs[:7] + ulp[:2] if quick else cfgs + ulp)] + (scaled[:2] if quick else scaled)
    for i, (ts, cp, dt, tscale) in enumerate(full * (1 if quick else 2)):
        d = 2 + i % 2
        A = (rng.integers(-4, 5, size=(d, d)) / 8).tolist()
        dv = [float(v) / 8 for v in rng.integers(-4, 1, size=d)]
        dv[i % d] = -float(rng.integers(1, 4)) / 8 / max(1.0, abs(dt))    # the implicit part always depends on the step size
        x0 = [float(v) / 2 for v in rng.integers(-6, 7, size=d)] if i % 4 else [float(v) / 10 for v in rng.integers(-30, 31, size=d)]
        fl = [[float(rng.integers(-1, 2)) / 8, 1.0 - float(rng.integers(0, 2)) / 8, float(rng.integers(-2, 3)) / 16] for _ in range(i % 3)]
        ctx.count(f'dfi N={round(ts / (2 * dt))}')
        yield 'dfi', dict(d=d, A=A, dv=dv, x0=x0, time_span=ts, cutoff=cp, dt=dt, filters=fl, solver=['bfe', 'cn'][i % 2],
                          kind=KINDS2[i % 4], tscale=tscale)
        yield 'solver_step', dict(d=d, A=A, dv=dv, x0=x0, dt=dt, solver=['bfe', 'cn'][i % 2], kind=KINDS2[(i + 1) % 4])
    for i, (ts, cp, dt) in enumerate(cfgs[: (3 if quick else 8)]):
        d = 3
        M = (rng.integers(-4, 5, size=(d, d)) / 8).tolist()
        xstar = [float(rng.integers(1, 7)) / 2 * (-1) ** i, float(rng.integers(-6, 7)) / 2, 0.0]
        yield 'dfi_fixed', dict(d=d, M=M, xstar=xstar, delta=-float(rng.integers(1, 4)) / 4, time_span=ts, cutoff=cp, dt=dt,
                                solver=['bfe', 'cn'][i % 2], kind=KINDS[i % 3], nfilters=i % 2)


# ---------------------------------------------------------------------------
# pytree packing
# ---------------------------------------------------------------------------
def pack(u, kind):
    if kind == 'array': return u
    if kind == 'dict': return {'p': u[:1], 'q': u[1:]}
    if kind == 'zerod': return u[0]
    if kind == 'col': return u[:, None]
    if kind == 'many': return {'k%02d' % j: u[j] for j in range(u.shape[0])}     # one 0-d leaf per component
    return (u[0], u[1:])


def unpack(t, kind):
    """Inverse of pack; also works on stacked trees (leading axes)."""
    jax, jnp, ti = J()
    if kind == 'array': return t
    if kind == 'dict': return jnp.concatenate([t['p'], t['q']], axis=-1)
    if kind == 'zerod': return t[..., None]
    if kind == 'col': return t[..., 0]
    if kind == 'many': return jnp.stack([t[k] for k in sorted(t)], axis=-1)
    return jnp.concatenate([t[0][..., None], t[1]], axis=-1)


NP_DT = {'f': np.float64, 'i': np.int64, 'h': np.float32}


def arr(v, dtype, shape=None):
    jax, jnp, ti = J()
    a = np.asarray(v, dtype=NP_DT[dtype])
    if shape is not None: a = a.reshape(shape)
    return jnp.asarray(a)


def frs(a):
    """Exact values of an implementation array as strings of Fractions."""
    a = np.asarray(a)
    if a.dtype.kind in 'iub': return [str(Fraction(int(v))) for v in a.ravel()]
    return [str(Fraction(float(v))) if np.isfinite(v) else repr(float(v)) for v in a.ravel()]


def mfrs(m): return None if m is None else [str(Fraction(v)) for v in m]
def pfrs(vals): return [str(Fraction(v)) for v in vals]
def flat(M): return [x for row in M for x in row]


def mk_step(A, b, kind, dtype):
    Aj = arr(A, dtype, (len(b), len(b))); bj = arr(b, dtype)
    return lambda s: pack(Aj @ unpack(s, kind) + bj, kind)


def mk_filters(fl, dtype):
    jax, jnp, ti = J()
    cast = (lambda v: v) if dtype in ('f', 'h') else int
    def mk(p):
        al, be, ga = cast(p[0]), cast(p[1]), cast(p[2])
        return lambda u, un: jax.tree_util.tree_map(lambda a, c: al * a + be * c + ga, u, un)
    return [mk(p) for p in fl]


# ---------------------------------------------------------------------------
# runners
# ---------------------------------------------------------------------------
def r_repeated(ctx, a):
    jax, jnp, ti = J()
    d, n = a['d'], a['n']
    out = ti.repeated(mk_step(a['A'], a['b'], a['kind'], a['dtype']), n)(pack(arr(a['x0'], a['dtype']), a['kind']))
    impl = frs(unpack(out, a['kind']))
    ctx.exact('repeated', impl, mfrs(ctx.model.call(1, [d, n], [flat(a['A']), a['b'], a['x0']])))
    ref = loop_states(a['A'], a['b'], [], a['x0'], n)[-1]
    ctx.oracle('repeating a step n times equals n applications', impl == pfrs(ref), {'impl': impl, 'loop': ref})


def r_filters(ctx, a):
    jax, jnp, ti = J()
    d, fl = a['d'], a['filters']
    step = ti.step_with_filters(mk_step(a['A'], a['b'], a['kind'], 'f'), mk_filters(fl, 'f'))
    impl = frs(unpack(step(pack(arr(a['x0'], 'f'), a['kind'])), a['kind']))
    ctx.exact('step_with_filters', impl,
              mfrs(ctx.model.call(2, [d, len(fl)], [flat(a['A']), a['b'], a['x0'], flat(fl)])))
    ref = step_f(a['A'], a['b'], fl, a['x0'])
    ctx.oracle('filters are applied in order after the step', impl == pfrs(ref), {'impl': impl, 'loop': ref})


def r_traj(ctx, a):
    jax, jnp, ti = J()
    d, outer, inner, swi, post, fl, kind, dt = a['d'], a['outer'], a['inner'], a['swi'], a['post'], a['filters'], a['kind'], a['dtype']
    step = ti.step_with_filters(mk_step(a['A'], a['b'], kind, dt), mk_filters(fl, dt)) if fl else mk_step(a['A'], a['b'], kind, dt)
    kw = {}
    if post is not None:
        Pj = arr(post['P'], dt, (post['m'], d)); pj = arr(post['p'], dt)
        if post.get('tree'):     # pytree-valued post-processing
            kw['post_process_fn'] = lambda s: {'y': Pj @ unpack(s, kind) + pj, 's': 2 * (Pj @ unpack(s, kind) + pj)[0]}
        else:
            kw['post_process_fn'] = lambda s: Pj @ unpack(s, kind) + pj
    fn = ti.trajectory_from_step(step, outer, inner, start_with_input=bool(swi), **kw)
    tree = post is not None and bool(post.get('tree'))
    x0p = pack(arr(a['x0'], dt), kind)
    final, frames = fn(x0p)
    fin = frs(unpack(final, kind))
    if tree:
        ctx.oracle('pytree post-processed frames are stacked leafwise',
                   np.shape(frames['s']) == (outer,) and np.array_equal(np.asarray(frames['s']), 2 * np.asarray(frames['y'])[:, 0]),
                   {'s': frs(frames['s'])})
        frames = frames['y']
    fr_arr = np.asarray(frames if post is not None else unpack(frames, kind))
    if a.get('again'):
        # purity: the same trajectory function on another input, then on the first input again
        x1p = pack(arr([v + 1 for v in a['x0']], dt), kind)
        fn(x1p)
        f2, fr2 = fn(x0p)
        l1 = [np.asarray(l) for l in jax.tree_util.tree_leaves((final, frames if post is not None else unpack(frames, kind)))]
        l2 = [np.asarray(l) for l in jax.tree_util.tree_leaves((f2, fr2['y'] if tree else fr2 if post is not None else unpack(fr2, kind)))]
        ctx.oracle('repeated evaluation of one trajectory function is bit-identical',
                   len(l1) == len(l2) and all(np.array_equal(p_, q_) for p_, q_ in zip(l1, l2)), None)
    if a.get('jit'):
        f3, fr3 = jax.jit(fn)(x0p)
        fr3 = fr3['y'] if tree else fr3 if post is not None else unpack(fr3, kind)
        ctx.oracle('jitted trajectory equals the eager one', frs(unpack(f3, kind)) + frs(fr3) == fin + frs(fr_arr), None)
    m = post['m'] if post is not None else d
    ints = [d, outer, inner, swi, int(post is not None), m, len(fl)]
    arrs = [flat(a['A']), a['b'], a['x0'], flat(post['P']) if post else [], post['p'] if post else [], flat(fl)]
    ctx.exact('trajectory_from_step (final, frames)', fin + frs(fr_arr), mfrs(ctx.model.call(3, ints, arrs)))
    # the property's clauses against the plain sequential loop
    st = loop_states(a['A'], a['b'], fl, a['x0'], outer * inner)
    pp = (lambda s: vadd(mv(post['P'], s), post['p'])) if post is not None else (lambda s: s)
    ctx.oracle('final state is the state after outer*inner steps', fin == pfrs(st[outer * inner]),
               {'impl': fin, 'loop': st[outer * inner]})
    ok = fr_arr.shape == (outer, m)
    bad = None
    if ok:
        for k in range(outer):
            want = pp(st[(k if swi else k + 1) * inner])
            if frs(fr_arr[k]) != pfrs(want):
                ok = False; bad = {'frame': k, 'impl': frs(fr_arr[k]), 'loop': want}; break
    else:
        bad = {'shape': list(fr_arr.shape), 'expected': [outer, m]}
    ctx.oracle('frame k is the state after k*inner (start_with_input) or (k+1)*inner steps', ok, bad)


def _xs_vectors(a):
    """Per-step input vectors X_k (what the scan body adds to the carry)."""
    xs, d, n = a['xs'], a['d'], a['n_xs']
    if xs is None: return None
    out = []
    for k in range(n):
        v = [0] * d
        if 's' in xs: v = [t + xs['s'][k] for t in v]
        if 'v' in xs: v = vadd(v, xs['v'][k])
        if 'w' in xs: v = vadd(v, [p_[0] + p_[1] for p_ in xs['w'][k]])
        if 'k00' in xs: v = vadd(v, [xs['k%02d' % j][k] for j in range(d)])
        out.append(v)
    return out


def _mk_body(a):
    jax, jnp, ti = J()
    d, m, kind, okind, dt = a['d'], a['m'], a['kind'], a['okind'], a['dtype']
    Aj = arr(a['A'], dt, (d, d)); bj = arr(a['b'], dt)
    Pj = arr(a['P'], dt, (m, d)); Qj = arr(a['Q'], dt, (m, d))
    def body(c, x):
        cu = unpack(c, kind)
        c2 = Aj @ cu + bj
        if x is not None:
            if 's' in x: c2 = c2 + x['s']
            if 'v' in x: c2 = c2 + x['v']
            if 'w' in x: c2 = c2 + x['w'][:, 0] + x['w'][:, 1]
            if 'k00' in x: c2 = c2 + jnp.stack([x[k] for k in sorted(x)])
        if okind == 'none': return pack(c2, kind), None
        y = Pj @ c2 + Qj @ cu
        if okind == 'dictmat': return pack(c2, kind), {'a': y, 'M': jnp.stack([y, 2 * y], axis=-1)}
        return pack(c2, kind), (y if okind == 'array' else (y[0], y[1:]))
    xs = None
    if a['xs'] is not None:
        xs = {}
        if 's' in a['xs']: xs['s'] = arr(a['xs']['s'], dt, (a['n_xs'],))
        if 'v' in a['xs']: xs['v'] = arr(a['xs']['v'], dt, (a['n_xs'], d))
        if 'w' in a['xs']: xs['w'] = arr(a['xs']['w'], dt, (a['n_xs'], d, 2))
        for k in a['xs']:
            if k.startswith('k'): xs[k] = arr(a['xs'][k], dt, (a['n_xs'],))
        if a.get('xform') == 'np_view':
            # read-only, non-contiguous numpy views instead of jax arrays
            def view(l):
                l = np.asarray(l); big = np.zeros((2 * l.shape[0] + 1,) + l.shape[1:], dtype=l.dtype)
                big[1::2] = l; v = big[1::2]; v.flags.writeable = False
                return v
            xs = {k: view(v) for k, v in xs.items()}
    return body, xs


def _ys_array(ys, a, n):
    jax, jnp, ti = J()
    if a['okind'] == 'none': return np.zeros((n, 0))
    if a['okind'] == 'array': return np.asarray(ys)
    if a['okind'] == 'dictmat': return np.asarray(ys['a'])
    return np.asarray(jnp.concatenate([ys[0][..., None], ys[1]], axis=-1))


def _scan_model_args(a):
    X = _xs_vectors(a)
    return [flat(a['A']), a['b'], flat(a['P']), flat(a['Q']), a['init'], flat(X) if X is not None else []]


def r_scan(ctx, a):
    """jax.lax.scan against the list semantics assumed by the model."""
    jax, jnp, ti = J()
    n = a['n_xs']
    body, xs = _mk_body(a)
    c, ys = jax.lax.scan(body, pack(arr(a['init'], a['dtype']), a['kind']), xs, length=None if xs is not None else n)
    impl = frs(unpack(c, a['kind'])) + frs(_ys_array(ys, a, n))
    ctx.exact('lax.scan', impl, mfrs(ctx.model.call(0, [a['d'], a['m'], int(xs is not None), n], _scan_model_args(a))))
    X = _xs_vectors(a) or [[0] * a['d']] * n
    rc, rys = loop_scan(a['A'], a['b'], a['P'], a['Q'], a['init'], X)
    ctx.oracle('lax.scan equals the sequential loop', impl == pfrs(rc) + pfrs(flat(rys)), {'impl': impl})


def r_nested(ctx, a):
    jax, jnp, ti = J()
    d, m, lengths = a['d'], a['m'], a['lengths']
    body, xs = _mk_body(a)
    init = pack(arr(a['init'], a['dtype']), a['kind'])
    res = None; err = None
    try:
        res = ti.nested_checkpoint_scan(body, init, xs, a['length'], nested_lengths=tuple(lengths))
    except Exception as e:   # any exception = the call is rejected
        err = type(e).__name__ + ': ' + str(e)[:120]
    ints = [d, m, int(xs is not None), int(a['length'] is not None), a['length'] or 0, len(lengths)] + list(lengths)
    mod = ctx.model.call(4, ints, _scan_model_args(a))
    ctx.exact('nested_checkpoint_scan accepted', [int(res is not None)], [int(mod is not None)])
    ctx.count('nested accepted:%d' % int(res is not None))
    P = math.prod(lengths)
    want_ok = (len(lengths) > 0 and (a['length'] is None or a['length'] == P) and (xs is None or a['n_xs'] == P)
               and all(l != 0 for l in lengths[:-1]))
    ctx.oracle('nested scan is accepted iff the factorisation matches the length', (res is not None) == want_ok,
               {'accepted': res is not None, 'expected': want_ok, 'error': err})
    if res is None: return
    c, ys = res
    n = P
    ys_arr = _ys_array(ys, a, n)
    impl = frs(unpack(c, a['kind'])) + frs(ys_arr)
    ctx.exact('nested_checkpoint_scan (carry, stacked outputs)', impl, mfrs(mod))
    if a['okind'] == 'dictmat':
        M = np.asarray(ys['M'])
        ctx.oracle('rank-2 per-step outputs are stacked along the leading axis only',
                   M.shape == (n, m, 2) and ys_arr.shape == (n, m) and np.array_equal(M, np.stack([ys_arr, 2 * ys_arr], axis=-1)),
                   {'shape': list(M.shape), 'expected': [n, m, 2]})
    # property clause: equals the flat scan (lax.scan and the plain loop)
    X = _xs_vectors(a) if xs is not None else [[0] * d] * n
    if len(X) == n:
        rc, rys = loop_scan(a['A'], a['b'], a['P'], a['Q'], a['init'], X)
        ctx.oracle('nested scan carry equals the flat sequential loop', frs(unpack(c, a['kind'])) == pfrs(rc),
                   {'impl': frs(unpack(c, a['kind'])), 'loop': rc})
        ctx.oracle('nested scan stacked outputs equal the flat sequential loop',
                   ys_arr.shape[0] == n and frs(ys_arr) == pfrs(flat(rys)), {'impl_shape': list(ys_arr.shape), 'impl': frs(ys_arr)[:24], 'loop': flat(rys)[:24]})
        fc, fys = jax.lax.scan(body, init, xs, length=n)
        ctx.oracle('nested scan equals lax.scan', impl == frs(unpack(fc, a['kind'])) + frs(_ys_array(fys, a, n)), None)


def r_nested_grad(ctx, a):
    jax, jnp, ti = J()
    d, lengths, kind = a['d'], a['lengths'], a['kind']
    n = math.prod(lengths)
    A = jnp.asarray(a['A']); cw = jnp.asarray(a['cw']); yw = jnp.asarray(a['yw'])
    has_xs = bool(a['has_xs'])
    def body(c, x):
        cu = unpack(c, kind)
        c2 = jnp.tanh(A @ cu + (x if x is not None else 0.25)) + 0.5 * cu
        return pack(c2, kind), jnp.sin(c2) * cu
    def loss(scan):
        def f(init, xs):
            c, ys = scan(body, pack(init, kind), xs if has_xs else None)
            return jnp.vdot(cw, unpack(c, kind)) + jnp.sum(yw * ys)
        return f
    nested = lambda f, i, x: ti.nested_checkpoint_scan(f, i, x, None if has_xs else n, nested_lengths=tuple(lengths))
    flat_scan = lambda f, i, x: jax.lax.scan(f, i, x, length=n)
    def loop(f, i, x):
        ys = []
        for k in range(n):
            i, y = f(i, x[k] if x is not None else None); ys.append(y)
        return i, jnp.stack(ys)
    init = jnp.asarray(a['init']); xs = jnp.asarray(a['xs'])
    vals = {}; grads = {}
    for name, sc in (('nested', nested), ('flat', flat_scan), ('loop', loop)):
        v, g = jax.value_and_grad(loss(sc), argnums=(0, 1))(init, xs)
        vals[name] = float(v); grads[name] = np.concatenate([np.asarray(g[0]).ravel(), np.asarray(g[1]).ravel()])
    scale = max(1.0, float(np.abs(grads['loop']).max()))
    ctx.oracle_close('nested scan value equals flat scan / python loop', [vals['nested'], vals['nested']], [vals['flat'], vals['loop']],
                     scale=max(1.0, abs(vals['loop'])), tol_rel=1e-12)
    ctx.oracle_close('nested scan gradients equal flat scan gradients', grads['nested'], grads['flat'], scale=scale, tol_rel=1e-12)
    ctx.oracle_close('nested scan gradients equal python-loop gradients', grads['nested'], grads['loop'], scale=scale, tol_rel=1e-12)
    ctx.oracle('gradient is non-trivial', bool(np.abs(grads['loop']).max() > 1e-6), None)


def r_accumulate(ctx, a):
    jax, jnp, ti = J()
    d, w, kind = a['d'], a['weights'], a['kind']
    wn = np.asarray(w, dtype=np.float64)
    if a.get('wform') == 'np_ro': wj = wn.copy(); wj.flags.writeable = False     # what DFI passes: a numpy array
    else: wj = jnp.asarray(wn)
    out = ti.accumulate_repeated(mk_step(a['A'], a['b'], kind, 'f'), wj, pack(arr(a['x0'], 'f'), kind))
    impl = frs(unpack(out, kind))
    ctx.oracle('accumulate_repeated leaves its weights untouched', np.array_equal(np.asarray(wj), wn), None)
    mod = ctx.model.call(5, [d], [flat(a['A']), a['b'], a['x0'], w])
    st = loop_states(a['A'], [Fraction(v) for v in a['b']], [], [Fraction(v) for v in a['x0']], len(w))
    ref = [sum(Fraction(w[k]) * st[k + 1][i] for k in range(len(w))) for i in range(d)]
    if a.get('nondyadic'):
        scale = float(sum(abs(Fraction(w[k])) * max(abs(v) for v in st[k + 1]) for k in range(len(w)))) + 1e-300
        ctx.corr('accumulate_repeated (non-dyadic data)', np.asarray(unpack(out, kind)), mod, scale=scale)
        ctx.oracle_close('weighted accumulation equals sum_k w_k f^(k+1)(x) (non-dyadic data, exact rational reference)',
                         np.asarray(unpack(out, kind)), np.array([float(v) for v in ref]), scale=scale)
        return
    ctx.exact('accumulate_repeated', impl, mfrs(mod))
    ctx.oracle('weighted accumulation equals sum_k w_k f^(k+1)(x)', impl == pfrs(ref), {'impl': impl, 'sum': pfrs(ref)})


def _py_scan(log, tag):
    """A user-supplied scan function with the lax.scan API: a plain python loop that records its calls."""
    jax, jnp, ti = J()
    tm = jax.tree_util.tree_map
    def scan(f, init, xs=None, length=None):
        leaves = jax.tree_util.tree_leaves(xs)
        n = int(leaves[0].shape[0]) if leaves else int(length)
        log.append([tag, n])
        c = init; ys = []
        for k in range(n):
            c, y = f(c, tm(lambda l: l[k], xs)); ys.append(y)
        return c, tm(lambda *t: jnp.stack(t), *ys)
    return scan


def r_custom_scan(ctx, a):
    """scan_fn / outer_scan_fn / inner_scan_fn / checkpoint_fn arguments are honoured (lengths >= 1 only)."""
    jax, jnp, ti = J()
    d, outer, inner, swi, lengths, kind, mix = a['d'], a['outer'], a['inner'], a['swi'], a['lengths'], a['kind'], a['mix']
    A, b = a['A'], a['b']
    step = mk_step(A, b, kind, 'f'); x0 = pack(arr(a['x0'], 'f'), kind)
    # trajectory_from_step
    log = []
    kw = {}
    if mix in ('both', 'outer'): kw['outer_scan_fn'] = _py_scan(log, 'outer')
    if mix in ('both', 'inner'): kw['inner_scan_fn'] = _py_scan(log, 'inner')
    final, frames = ti.trajectory_from_step(step, outer, inner, start_with_input=bool(swi), **kw)(x0)
    st = loop_states(A, b, [], a['x0'], outer * inner)
    want = pfrs(st[-1]) + pfrs(flat([st[(k if swi else k + 1) * inner] for k in range(outer)]))
    ctx.oracle('trajectory with user scan functions equals the sequential loop',
               frs(unpack(final, kind)) + frs(unpack(frames, kind)) == want, {'mix': mix})
    exp = []
    if 'outer_scan_fn' in kw: exp.append(['outer', outer])
    if 'inner_scan_fn' in kw and inner != 1:
        exp += [['inner', inner]] * (outer if 'outer_scan_fn' in kw else 1)     # lax.scan traces its body once
    ctx.oracle('outer_scan_fn / inner_scan_fn are the scans that are used', sorted(log) == sorted(exp), {'calls': log, 'expected': exp})
    # repeated
    log = []
    out = ti.repeated(step, inner, _py_scan(log, 'rep'))(x0)
    ctx.oracle('repeated with a user scan function', frs(unpack(out, kind)) == pfrs(loop_states(A, b, [], a['x0'], inner)[-1])
               and log == ([] if inner == 1 else [['rep', inner]]), {'calls': log})
    # nested_checkpoint_scan with user scan_fn and checkpoint_fn
    log = []; ck = []
    def checkpoint(fn):
        ck.append(1); return fn
    n = math.prod(lengths)
    xs = jnp.asarray(np.arange(1, n * d + 1, dtype=np.float64).reshape(n, d) % 5)
    body = lambda c, x: (pack(arr(A, 'f', (d, d)) @ unpack(c, kind) + x, kind), unpack(c, kind) * 2 + x)
    c, ys = ti.nested_checkpoint_scan(body, x0, xs, nested_lengths=tuple(lengths), scan_fn=_py_scan(log, 's'), checkpoint_fn=checkpoint)
    rc, rys = loop_scan(A, [0] * d, [[0] * d for _ in range(d)], [[2 * int(i == j) for j in range(d)] for i in range(d)], a['x0'],
                        [[int(v) for v in row] for row in np.asarray(xs)])
    rys = [vadd(y, [int(v) for v in row]) for y, row in zip(rys, np.asarray(xs))]
    ctx.oracle('nested scan with user scan_fn / checkpoint_fn equals the flat loop',
               frs(unpack(c, kind)) + frs(ys) == pfrs(rc) + pfrs(flat(rys)), {'lengths': lengths})
    exp = []; reps = 1
    for l in lengths:
        exp += [['s', l]] * reps; reps *= l
    nck = sum(math.prod(lengths[:j]) for j in range(len(lengths) - 1))
    ctx.oracle('scan_fn is used at every nesting level and checkpoint_fn wraps every sub-scan',
               sorted(log) == sorted(exp) and len(ck) == nck, {'calls': log, 'expected': exp, 'checkpoints': len(ck), 'expected_checkpoints': nck})
    # accumulate_repeated
    log = []
    w = a['weights']
    out = ti.accumulate_repeated(step, jnp.asarray(np.asarray(w)), x0, _py_scan(log, 'acc'))
    st = loop_states(A, b, [], a['x0'], len(w))
    ref = [sum(Fraction(w[k]) * st[k + 1][i] for k in range(len(w))) for i in range(d)]
    ctx.oracle('accumulate_repeated with a user scan function', frs(unpack(out, kind)) == pfrs(ref) and log == [['acc', len(w)]], {'calls': log})


def _linear_eq(A, dv, kind):
    jax, jnp, ti = J()
    Aj = jnp.asarray(np.asarray(A, dtype=np.float64)); dj = jnp.asarray(np.asarray(dv, dtype=np.float64))
    return ti.ImplicitExplicitODE.from_functions(
        lambda s: pack(Aj @ unpack(s, kind), kind),
        lambda s: pack(dj * unpack(s, kind), kind),
        lambda s, h: pack(unpack(s, kind) / (1 - h * dj), kind))


def _cn_solver(eq, dt):
    jax, jnp, ti = J()
    tm = jax.tree_util.tree_map
    def step(u):
        g = tm(lambda x, e, i: x + dt * e + (dt / 2) * i, u, eq.explicit_terms(u), eq.implicit_terms(u))
        return eq.implicit_inverse(g, dt / 2)
    return step


def _solver(name):
    jax, jnp, ti = J()
    return ti.backward_forward_euler if name == 'bfe' else _cn_solver


def _sinc(x):
    return 1.0 if x == 0 else math.sin(math.pi * x) / (math.pi * x)


def _weights_tables(ctx, ts, cp, dt):
    """Implementation weights, the two sinc tables handed to the model, and the table obligations."""
    jax, jnp, ti = J()
    w = np.asarray(ti._dfi_lanczos_weights(ts, cp, dt), dtype=np.float64)
    q = Fraction(ts) / (2 * Fraction(dt))
    N = math.floor(q)
    if q - N > Fraction(1, 2) or (q - N == Fraction(1, 2) and N % 2 == 1): N += 1
    n = np.arange(1, N + 1)
    s1 = np.sinc(n / (N + 1)); s2 = np.sinc(n * ts / (cp * N)) if N else np.zeros(0)
    ref = np.array([_sinc(k / (N + 1)) * _sinc(k * ts / (cp * N)) for k in range(1, N + 1)])
    ok = w.shape == (max(N, 0),) and bool(np.all(np.abs(w - ref) <= 1e-14))
    ctx.table_obligation('H_lanczos_table: N = round-half-even(time_span/(2 dt)), w_n = sinc(n/(N+1)) sinc(n time_span/(cutoff N))',
                         ok, {'N': N, 'impl': w.tolist(), 'ref': ref.tolist()})
    total = 1.0 + 2 * float(w.sum())
    ctx.table_obligation('H_total_weight_nonzero: 1 + 2 sum(w) <> 0', abs(total) > 1e-6, {'total': total})
    # the weight function is pure: a second call returns the same un-normalised table
    w2 = np.asarray(ti._dfi_lanczos_weights(ts, cp, dt), dtype=np.float64)
    ctx.oracle('Lanczos weights are the same on every call', w.shape == w2.shape and np.array_equal(w, w2), {'first': w.tolist(), 'second': w2.tolist()})
    return ref, s1, s2


def _dfi_eval(a):
    jax, jnp, ti = J()
    eq = _linear_eq(a['A'], a['dv'], a['kind'])
    f = ti.digital_filter_initialization(eq, _solver(a['solver']), mk_filters(a['filters'], 'f'), a['time_span'], a['cutoff'], a['dt'])
    return np.asarray(unpack(f(pack(arr(a['x0'], 'f'), a['kind'])), a['kind']))


def r_dfi(ctx, a):
    jax, jnp, ti = J()
    if a.get('tscale'):
        # the same problem expressed in a time unit 2^k times smaller: identical result expected
        sc = 2.0 ** a['tscale']
        b = dict(a, tscale=0, time_span=a['time_span'] * sc, cutoff=a['cutoff'] * sc, dt=a['dt'] * sc,
                 A=[[v / sc for v in row] for row in a['A']], dv=[v / sc for v in a['dv']])
        base = _dfi_eval(a); scaled = _dfi_eval(b)
        ctx.oracle_close('DFI is invariant under a dyadic change of the time unit (2^%d)' % a['tscale'], scaled, base,
                         scale=float(np.abs(base).max()) + 1e-300)
        a = b
    d, kind, dt, fl = a['d'], a['kind'], a['dt'], a['filters']
    eq = _linear_eq(a['A'], a['dv'], kind)
    f = ti.digital_filter_initialization(eq, _solver(a['solver']), mk_filters(fl, 'f'), a['time_span'], a['cutoff'], dt)
    x0p = pack(arr(a['x0'], 'f'), kind)
    out = np.asarray(unpack(f(x0p), kind))
    # state across calls: same function again (after another input), and a freshly built one
    f(pack(arr([v + 0.5 for v in a['x0']], 'f'), kind))
    out2 = np.asarray(unpack(f(x0p), kind))
    out3 = np.asarray(unpack(ti.digital_filter_initialization(eq, _solver(a['solver']), mk_filters(fl, 'f'), a['time_span'],
                                                              a['cutoff'], dt)(x0p), kind))
    ctx.oracle('DFI evaluated repeatedly with the same parameters is bit-identical',
               np.array_equal(out, out2) and np.array_equal(out, out3), {'first': out.tolist(), 'again': out2.tolist(), 'rebuilt': out3.tolist()})
    w, s1, s2 = _weights_tables(ctx, a['time_span'], a['cutoff'], dt)   # w: independently computed weights
    mod = ctx.model.call(6, [d, int(a['solver'] == 'cn'), len(fl)],
                         [flat(a['A']), a['dv'], a['x0'], s1.tolist(), s2.tolist(), [dt], flat(fl)])
    # reference: the defining sum with python floats
    A = np.asarray(a['A']); dv = np.asarray(a['dv'])
    def one(u, sgn):
        if a['solver'] == 'bfe': un = (u + dt * sgn * (A @ u)) / (1 - sgn * dt * dv)
        else: un = (u + dt * sgn * (A @ u) + (dt / 2) * sgn * dv * u) / (1 - sgn * (dt / 2) * dv)
        for p in fl: un = p[0] * u + p[1] * un + p[2]
        return un
    x0 = np.asarray(a['x0']); total = 1.0 + 2 * w.sum()
    acc = x0 / total; scale = float(np.abs(x0).max()) + 1e-300
    for sgn in (1.0, -1.0):
        u = x0.copy()
        for k in range(len(w)):
            u = one(u, sgn); acc = acc + (w[k] / total) * u; scale = max(scale, float(np.abs(u).max()))
    scale *= max(1.0, float(np.abs(w).sum() * 2 + 1) / abs(total))
    ctx.corr('digital_filter_initialization', out, mod, scale=scale)
    ctx.oracle_close('DFI equals w0 x + sum_k w_k (F^k x + B^k x) with normalised weights', out, acc, scale=scale)


def r_solver_step(ctx, a):
    jax, jnp, ti = J()
    d, kind, dt = a['d'], a['kind'], a['dt']
    eq = _linear_eq(a['A'], a['dv'], kind); rev = ti.TimeReversedImExODE(eq)
    x0 = pack(arr(a['x0'], 'f'), kind)
    scale = float(np.abs(np.asarray(a['x0'])).max()) * 4 + 1.0
    for r, e in ((0, eq), (1, rev)):
        out = np.asarray(unpack(_solver(a['solver'])(e, dt)(x0), kind))
        ctx.corr('solver step reversed=%d' % r, out,
                 ctx.model.call(7, [d, int(a['solver'] == 'cn'), r], [flat(a['A']), a['dv'], a['x0'], [dt]]), scale=scale)
    rr = ti.TimeReversedImExODE(rev)
    u = lambda t: np.asarray(unpack(t, kind))
    ctx.oracle_close('time reversal negates the terms', np.concatenate([u(rev.explicit_terms(x0)), u(rev.implicit_terms(x0))]),
                     -np.concatenate([u(eq.explicit_terms(x0)), u(eq.implicit_terms(x0))]), scale=scale, tol_abs=0.0)
    ctx.oracle_close('time reversal is an involution',
                     np.concatenate([u(rr.explicit_terms(x0)), u(rr.implicit_terms(x0)), u(rr.implicit_inverse(x0, dt))]),
                     np.concatenate([u(eq.explicit_terms(x0)), u(eq.implicit_terms(x0)), u(eq.implicit_inverse(x0, dt))]), scale=scale)
    ctx.oracle_close('reversed implicit inverse uses -step_size', u(rev.implicit_inverse(x0, dt)), u(eq.implicit_inverse(x0, -dt)), scale=scale)
    ctx.oracle_close('backward Euler step of the reversed equation = step with -dt',
                     u(ti.backward_forward_euler(rev, dt)(x0)), u(ti.backward_forward_euler(eq, -dt)(x0)), scale=scale)


def r_dfi_fixed(ctx, a):
    """A steady state of the forward and backward dynamics is returned unchanged."""
    jax, jnp, ti = J()
    d, kind, dt = a['d'], a['kind'], a['dt']
    M = jnp.asarray(np.asarray(a['M'])); xs = jnp.asarray(np.asarray(a['xstar']))
    dj = jnp.asarray(np.array([0.0] * (d - 1) + [a['delta']]))
    eq = ti.ImplicitExplicitODE.from_functions(
        lambda s: pack(M @ (unpack(s, kind) - xs) * (1.0 + unpack(s, kind) ** 2), kind),
        lambda s: pack(dj * unpack(s, kind), kind),
        lambda s, h: pack(unpack(s, kind) / (1 - h * dj), kind))
    tm = jax.tree_util.tree_map
    # a filter that keeps steady states: u_next + (u_next - u)/4
    fl = [lambda u, un: tm(lambda p, q: q + 0.25 * (q - p), u, un)] * a['nfilters']
    _weights_tables(ctx, a['time_span'], a['cutoff'], dt)
    f = ti.digital_filter_initialization(eq, _solver(a['solver']), fl, a['time_span'], a['cutoff'], dt)
    x0 = pack(xs, kind)
    fwd = ti.step_with_filters(_solver(a['solver'])(eq, dt), fl)(x0)
    ctx.oracle_close('test state is a steady state of the step', np.asarray(unpack(fwd, kind)), np.asarray(xs), scale=4.0)
    out = np.asarray(unpack(f(x0), kind))
    ctx.oracle_close('DFI returns a steady state unchanged', out, np.asarray(a['xstar']), scale=4.0, tol_rel=2.0 ** -44)


RUNNERS = {'custom_scan': r_custom_scan, 'scan': r_scan, 'repeated': r_repeated, 'filters': r_filters, 'traj': r_traj, 'nested': r_nested,
           'nested_grad': r_nested_grad, 'accumulate': r_accumulate, 'dfi': r_dfi, 'solver_step': r_solver_step,
           'dfi_fixed': r_dfi_fixed}
