"""C05 - tendencies match the continuous equations; balanced states are steady.

Oracle A (pointwise equations).  The plugin carries its own, implementation
independent evaluation of the continuous sigma-coordinate primitive equations
and of the layered shallow-water equations:

  * every state field is a polynomial in the Cartesian coordinates (x, y, z) of
    the unit sphere (x = cos(lat) cos(lon), y = cos(lat) sin(lon), z = sin(lat) = mu),
    with small rational coefficients; quotients by cos^2(lat) are kept as an
    integer power of s2 = 1/(1 - z^2).  This is a commutative differential ring
    (class `Fn` below) with the two tangential derivations
        d/dlon            = x d/dy - y d/dx
        cos(lat) d/dlat   = -z (x d/dx + y d/dy) + (x^2 + y^2) d/dz ,  D(s2) = 2 z s2,
    i.e. the horizontal derivatives are ANALYTIC (exact polynomial calculus in
    numpy, no spherical-harmonic table, no recurrence of the implementation);
  * the equations are written once over this ring exactly as Model/PrimEqSpec.v
    writes them over an abstract commutative differential ring (class `Fn` is a concrete model of it) (advective form, sigma-dot from
    the cumulative integrals, kappa T omega/p, -sum dsigma (div + u.grad lnps),
    (zeta+f) k x v, grad(KE + Phi), R Tv grad lnps; documented vertical differences);
  * the modal input state is the analysis (grid.to_modal) of the nodal values of
    these polynomials (a table obligation checks that the grid resolves them),
    the implementation's explicit_terms + implicit_terms is compared with
    grid.to_modal of the nodal values of the spec tendency in every coefficient.

Oracle B (balanced states): tendency norms of the analytically balanced families
relative to the largest individual term.  Correspondence: extracted column model
(Model/PrimEq.v via Extract/ExC05.v) against the spec's vertical discretisation
and against get_geopotential / shallow_water_states on the implementation."""
import numpy as np
from fractions import Fraction
from harness import util, dyn

THEOREMS = ['C05_rest_isothermal_steady', 'C05_primeq_column_refines_spec', 'C05_primeq_column_refines_spec_moist',
            'C05_primeq_column_refines_momentum', 'C05_upwind_is_spec', 'C05_primeq_refines_spec',
            'C05_primeq_refines_spec_modal_moist', 'C05_rest_isothermal_steady_moist',
            'C05_flux_form_is_advective_form', 'C05_operators', 'C05_zonal_polynomial_derivative',
            'C05_solid_body_steady', 'C05_sw_polynomial_jet_steady', 'C05_sw_solid_body_one_layer',
            'C05_one_layer_formulas_balanced', 'C05_multi_layer_formulas_balanced', 'C05_differential_ring_instance',
            'C05_solid_body_steady_series', 'C05_sw_solid_body_series', 'C05_rest_isothermal_steady_R',
            'C05_hyps_satisfiable', 'C05_modal_hyps_satisfiable', 'C05_rest_moist_hyps_satisfiable',
            'C05_model_is_source', 'C05_gen_primeq_complete',
            'C05_whole_state_rest_isothermal_steady', 'C05_whole_state_rest_hyps_satisfiable',
            'C05_sw_model_refines_spec', 'C05_sw_model_jet_steady_partial', 'C05_sw_model_hyps_satisfiable',
            'C05_sw_concrete_refines_spec', 'C05_sw_concrete_hyps_satisfiable',
            'C05_whole_state_rest_isothermal_steady_moist', 'C05_whole_state_rest_moist_hyps_satisfiable',
            'C05_whole_state_refines_spec', 'C05_whole_state_solid_body_steady_partial',
            'C05_whole_state_rest_isothermal_steady_moist_modal', 'C05_whole_state_rest_moist_modal_hyps_satisfiable']
LEVEL = 'proof'
LEVEL_TEXT = ('machine-checked theorems (Coq), every field, every layer count, every level set: the nodal column algebra of '
              'the implementation (explicit + implicit) equals the documented vertical discretisation of the continuous '
              'sigma-coordinate equations term by term, and at the modal layer the explicit + implicit divergence and vorticity '
              'tendencies (dry and moist classes, any reference profile) are the clipped modal div/curl/laplacian applied to the '
              'analysed specification quantities -div((zeta+f) k x v + sigma_dot dv/dsigma + R Tv grad lnps) - lap(KE + Phi) under '
              'the named exactness obligations of C04; a resting isothermal atmosphere in hydrostatic balance over any '
              'orography (dry and moist classes with uniform humidity) has exactly zero total tendency using only linearity of '
              'the horizontal operators; over an abstract '
              'commutative differential ring of smooth fields (ring laws, two commuting derivations with the Leibniz rule, '
              'mu with cos(lat) dmu/dlat = 1 - mu^2) zonal states in gradient-wind / geostrophic balance have zero '
              'tendency of the specification (arbitrary rotation rate, radius, per-layer temperatures, uniform humidity, '
              'arbitrary polynomial jets, arbitrary density matrices), with a concrete model of all hypotheses (formal power '
              'series in mu over Qc, non-zero derivation) in which the balance theorems are instantiated; the formulas of '
              'shallow_water_states.one_layer/multi_layer satisfy the balance identity (for radius 1 and 2*Omega = 1, '
              'which they hard-code). The implementation is tied to the specification by exploration: total tendency '
              'against an independent exact polynomial evaluation of the continuous equations on alias-free states, and '
              'tendency norms of the balanced families')
LEVEL_NOTE = ('round 2: on the EXECUTED whole-state models (Model/PrimEqFull.v dry and moist, Model/ShallowWater.v) the rest state is proved steady (dry: no table hypothesis left; moist: H_q_uniform, H_gradq_zero, H_lap_one, H_lapn on the index ranges), the concrete shallow-water operators are proved linear and C05_sw_concrete_refines_spec holds for sw_explicit_terms + implicit terms under H_sw_pot_clip, H_sw_div_vel, and C05_whole_state_refines_spec lifts the modal refinement to the executed dry model under H_one, H_div_grad, H_curl_grad; the balanced jet and solid-body rotation on the executed models are only PARTIAL (exactness of the modal operators on the balanced state stays a named hypothesis / oracle). Earlier note: three groups of theorems: (A) rest state on the model with abstract linear transforms, (B) column refinement of '
              'Model/PrimEq.v against the vertical discretisation of the spec, (C) identities of the specification over an '
              'abstract commutative differential ring (non-vacuity: C05_differential_ring_instance, power series over Qc; the '
              'instance theorems use functional extensionality). '
              'The modal-layer theorems assume H_div_grad, H_curl_grad, lap_const (moist: H_leibniz, H_leibniz_curl) and b_0 = 0; the upwind option '
              'is proved only at the operator level (C05_upwind_is_spec); its use inside the tendencies and the dense / matrix-free '
              'vertical products are covered by Oracle A (the momentum part of the upwind term goes through the implementation\'s '
              'linear spectral div/curl); that '
              'to_modal of a nodal product is the exact projection of the product of the continuous fields (alias-freeness) is '
              'neither assumed nor proved: this last link to the continuous equations is decided by exploration (Oracle A). steady_state_jw and '
              'the barotropic-instability jet are not band-limited and are explored with loose, labelled tolerances; '
              'isothermal_rest_atmosphere over non-flat orography uses a standard-atmosphere formula for the surface pressure '
              'and is only approximately balanced; shallow_water_states.one_layer/multi_layer hard-code radius 1 and 2*Omega = 1')
TECHNIQUE = ('Coq proof (spec refinement + balance identities; nodal column algebra proved equal to its transcription regenerated from '
             'primitive_equations.py on every run, C05_model_is_source) + exact-polynomial pointwise oracle + balanced-family search')

QN, QC, QI = 'specific_humidity', 'specific_cloud_liquid_water_content', 'specific_cloud_ice_water_content'


# ---------------------------------------------------------------------------
# The differential ring of polynomial functions on the unit sphere
# ---------------------------------------------------------------------------
def _trim(a):
    if a.size == 0: return np.zeros((1, 1, 1))
    nz = np.nonzero(a)
    if len(nz[0]) == 0: return np.zeros((1, 1, 1))
    return a[:nz[0].max() + 1, :nz[1].max() + 1, :nz[2].max() + 1]


def _pmul(a, b):
    """product of two trivariate coefficient arrays (direct convolution)"""
    if a.size > b.size: a, b = b, a
    out = np.zeros(tuple(s + t - 1 for s, t in zip(a.shape, b.shape)))
    for (i, j, k) in zip(*np.nonzero(a)):
        out[i:i + b.shape[0], j:j + b.shape[1], k:k + b.shape[2]] += a[i, j, k] * b
    return out


def _padd(a, b):
    sh = tuple(max(s, t) for s, t in zip(a.shape, b.shape))
    out = np.zeros(sh)
    out[:a.shape[0], :a.shape[1], :a.shape[2]] += a
    out[:b.shape[0], :b.shape[1], :b.shape[2]] += b
    return out


_C2 = np.zeros((1, 1, 3)); _C2[0, 0, 0] = 1.0; _C2[0, 0, 2] = -1.0          # 1 - z^2  (= cos^2 lat on the sphere)
_XY2 = np.zeros((3, 3, 1)); _XY2[2, 0, 0] = 1.0; _XY2[0, 2, 0] = 1.0         # x^2 + y^2 (= cos^2 lat on the sphere)


class Fn:
    """n(x, y, z) * s2^k  with s2 = 1/(1 - z^2), restricted to the unit sphere."""
    __slots__ = ('n', 'k')

    def __init__(self, n, k=0):
        self.n = _trim(np.asarray(n, dtype=np.float64)); self.k = int(k)

    @staticmethod
    def const(c):
        return Fn(np.full((1, 1, 1), float(c)))

    @staticmethod
    def mono(i, j, k, c=1.0):
        a = np.zeros((i + 1, j + 1, k + 1)); a[i, j, k] = c
        return Fn(a)

    def lift(self, k):
        """same function with denominator power k >= self.k"""
        n = self.n
        for _ in range(k - self.k): n = _pmul(n, _C2)
        return Fn(n, k)

    def __add__(self, o):
        o = _fn(o); k = max(self.k, o.k)
        return Fn(_padd(self.lift(k).n, o.lift(k).n), k)
    __radd__ = __add__

    def __neg__(self): return Fn(-self.n, self.k)
    def __sub__(self, o): return self + (-_fn(o))
    def __rsub__(self, o): return _fn(o) + (-self)

    def __mul__(self, o):
        if isinstance(o, (int, float, np.floating, np.integer)): return Fn(self.n * float(o), self.k)
        return Fn(_pmul(self.n, o.n), self.k + o.k)
    __rmul__ = __mul__

    def sec2(self):
        return Fn(self.n, self.k + 1)

    def dlon(self):
        n = self.n; out = np.zeros((n.shape[0] + 1, n.shape[1] + 1, n.shape[2]))
        for (i, j, k) in zip(*np.nonzero(n)):
            c = n[i, j, k]
            if j: out[i + 1, j - 1, k] += j * c          # x d/dy
            if i: out[i - 1, j + 1, k] -= i * c          # - y d/dx
        return Fn(out, self.k)

    def dmu(self):
        """cos(lat) d/dlat = (1 - mu^2) d/dmu"""
        n = self.n; out = np.zeros((n.shape[0] + 2, n.shape[1] + 2, n.shape[2] + 1))
        for (i, j, k) in zip(*np.nonzero(n)):
            c = n[i, j, k]
            out[i, j, k + 1] -= (i + j) * c              # -z (x d/dx + y d/dy)
            if k:
                out[i + 2, j, k - 1] += k * c            # (x^2 + y^2) d/dz
                out[i, j + 2, k - 1] += k * c
            if self.k:
                out[i, j, k + 1] += 2 * self.k * c       # D(s2^k) = 2 k z s2^k
        return Fn(out, self.k)

    def at(self, x, y, z):
        v = np.polynomial.polynomial.polyval3d(x, y, z, self.n)
        return v / (1 - z * z) ** self.k if self.k else v


def _fn(o):
    return o if isinstance(o, Fn) else Fn.const(o)


Z = Fn.mono(0, 0, 1)        # mu = sin(lat)


def rand_poly(rng, degree=2, denom=16, amp=1.0, zonal=False):
    """random polynomial of total degree <= degree with coefficients in Z/denom * amp (JSON-able spec)"""
    terms = []
    for i in range(degree + 1):
        for j in range(degree + 1 - i):
            for k in range(degree + 1 - i - j):
                if zonal and (i or j): continue
                c = int(rng.integers(-denom, denom + 1))
                if c: terms.append([i, j, k, c * amp / denom])
    return terms


def poly_fn(terms):
    f = Fn.const(0.0)
    for i, j, k, c in terms: f = f + Fn.mono(int(i), int(j), int(k), float(c))
    return f


def lap(f, a):
    return (f.dlon().dlon() + f.dmu().dmu()).sec2() * (1.0 / (a * a))


# ---------------------------------------------------------------------------
# Pointwise specification of the sigma-coordinate primitive equations
# ---------------------------------------------------------------------------
def sigma_tables(b):
    b = np.asarray(b, dtype=np.float64); K = len(b) - 1
    cen = (b[1:] + b[:-1]) / 2; th = np.diff(b)
    ls = np.log(cen)
    al = np.array([(ls[k + 1] - ls[k]) / 2 if k + 1 < K else -ls[k] for k in range(K)])
    return K, cen, th, al


def vadv(sdot, X, cen):
    """-(sigma_dot dX/dsigma) at layer centres, centred differences, zero boundary velocity"""
    K = len(X); out = []
    for n in range(K):
        acc = Fn.const(0.0)
        if n + 1 < K: acc = acc + sdot[n] * (X[n + 1] - X[n]) * (1.0 / (cen[n + 1] - cen[n]))
        if n > 0: acc = acc + sdot[n - 1] * (X[n] - X[n - 1]) * (1.0 / (cen[n] - cen[n - 1]))
        out.append(acc * (-0.5))
    return out


def pe_spec(p, st):
    """p: dict(a, Omega, R, kappa, g, b, Rv, Cpv, Cp, kind); st: dict of Fn lists psi, chi, T (absolute), lnps, oro, q, qc, qi, tracers.
    Returns dict of ring elements (vorticity, divergence, lnps, tracers) and for the temperature the ring parts
    needed for a nodal evaluation (the moist adiabatic factor is a quotient), plus term magnitudes."""
    a = p['a']; K, cen, th, al = sigma_tables(p['b']); R = p['R']; kind = p['kind']
    psi, chi, T, lnps, oro = st['psi'], st['chi'], st['T'], st['lnps'], st['oro']
    U = [(chi[k].dlon() - psi[k].dmu()) * (1 / a) for k in range(K)]
    V = [(chi[k].dmu() + psi[k].dlon()) * (1 / a) for k in range(K)]
    zeta = [lap(psi[k], a) for k in range(K)]; delta = [lap(chi[k], a) for k in range(K)]
    f = Z * (2 * p['Omega'])
    gx = lnps.dlon() * (1 / a); gy = lnps.dmu() * (1 / a)
    G = [(U[k] * gx + V[k] * gy).sec2() for k in range(K)]                 # u . grad ln ps
    full = [delta[k] + G[k] for k in range(K)]
    cum = []; acc = Fn.const(0.0)
    for k in range(K):
        acc = acc + full[k] * th[k]; cum.append(acc)
    tot = cum[-1]
    sig = np.cumsum(th)                      # sigma of the lower boundaries, measured from the first boundary (accepted level sets
                                             # may start at a value only close to 0)
    sdot = [tot * float(sig[r]) - cum[r] for r in range(K - 1)]     # sigma_dot at the internal boundaries
    upwind = p.get('vadv', 'centered') in ('upwind', 'none')     # vertical advection terms supplied at the nodes by the caller
    # the two halves of sigma_dot (semi-implicit split): from u.grad(lnps) and from the divergence
    cumG = []; acc = Fn.const(0.0)
    for k in range(K):
        acc = acc + G[k] * th[k]; cumG.append(acc)
    sdotG = [cumG[-1] * float(sig[r]) - cumG[r] for r in range(K - 1)]
    sdotD = [sdot[r] - sdotG[r] for r in range(K - 1)]
    zero_col = [Fn.const(0.0)] * K
    eps = p['Rv'] / R - 1.0
    q = st.get('q')
    if kind == 'dry' or kind == 'time':
        Tv = list(T)
    elif kind == 'moist':
        Tv = [T[k] * (1 + q[k] * eps) for k in range(K)]
    else:   # cloud class: condensate loading multiplies T' only (as implemented; see C04's cloud defect)
        Tp = [T[k] - p['Tref'][k] for k in range(K)]
        Tv = [T[k] * (1 + q[k] * eps) - Tp[k] * (st['qc'][k] + st['qi'][k]) for k in range(K)]
    # geopotential (hydrostatic integral, Durran 8.6.2 / get_geopotential_weights), with virtual temperature
    Tgeo = Tv if kind not in ('cloud',) else [T[k] * (1 + q[k] * eps) for k in range(K)]
    phi = []
    for j in range(K):
        s = oro * p['g'] + Tgeo[j] * (R * al[j])
        for k in range(j + 1, K): s = s + Tgeo[k] * (R * (al[k] + al[k - 1]))
        phi.append(s)
    # with the upwind option the (non-polynomial) vertical advection terms are added at the nodes by the caller
    vU = zero_col if upwind else vadv(sdot, U, cen); vV = zero_col if upwind else vadv(sdot, V, cen)
    out = {'vorticity': [], 'divergence': [], 'scale': {}}
    mags = {'vorticity': [], 'divergence': [], 'temperature': [], 'lnps': []}
    for k in range(K):
        P = -(V[k] * (zeta[k] + f)) - vU[k] + Tv[k] * gx * R
        Q = U[k] * (zeta[k] + f) - vV[k] + Tv[k] * gy * R
        ke = (U[k] * U[k] + V[k] * V[k]).sec2() * 0.5
        cz = (Q.dlon() - P.dmu()).sec2() * (-1 / a)
        cd = (P.dlon() + Q.dmu()).sec2() * (-1 / a)
        lk = lap(ke, a); lp = lap(phi[k], a)
        out['vorticity'].append(cz)
        out['divergence'].append(cd - lk - lp)
        mags['vorticity'] += [cz]
        mags['divergence'] += [cd, lk, lp]
    out['lnps'] = -tot
    mags['lnps'] += [full[k] * th[k] for k in range(K)]
    # omega/p = u.grad lnps - (alpha_n cum_n + alpha_{n-1} cum_{n-1}) / dsigma_n
    wp = []
    for n in range(K):
        s = cum[n] * al[n]
        if n: s = s + cum[n - 1] * al[n - 1]
        wp.append(G[n] - s * (1.0 / th[n]))
    vT = zero_col if upwind else vadv(sdot, T, cen)
    out['T_adv'] = [-(U[k] * T[k].dlon() + V[k] * T[k].dmu()).sec2() * (1 / a) + vT[k] for k in range(K)]
    out['T_omega'] = wp            # multiplied at the nodes by kappa * T * (moist factor)
    out['T'] = T; out['q'] = q
    tr = {}
    for name, X in st.get('tracers', {}).items():
        vX = zero_col if upwind else vadv(sdot, X, cen)
        tr[name] = [-(U[k] * X[k].dlon() + V[k] * X[k].dmu()).sec2() * (1 / a) + vX[k] for k in range(K)]
    out['tracers'] = tr
    out['mags'] = mags
    out['fields'] = dict(U=U, V=V, zeta=zeta, delta=delta, G=G, sdot=sdot, sdotG=sdotG, sdotD=sdotD, phi=phi, Tv=Tv)
    return out


def sw_spec(p, st):
    """layered shallow water: p: dict(a, Omega, dens, ref), st: psi, chi, pot (deviation), oro (potential units)."""
    a = p['a']; K = len(st['psi']); dens = np.asarray(p['dens'], dtype=np.float64)
    psi, chi, pot, oro = st['psi'], st['chi'], st['pot'], st['oro']
    U = [(chi[k].dlon() - psi[k].dmu()) * (1 / a) for k in range(K)]
    V = [(chi[k].dmu() + psi[k].dlon()) * (1 / a) for k in range(K)]
    zeta = [lap(psi[k], a) for k in range(K)]; delta = [lap(chi[k], a) for k in range(K)]
    f = Z * (2 * p['Omega'])
    out = {'vorticity': [], 'divergence': [], 'potential': []}; mags = {'vorticity': [], 'divergence': [], 'potential': []}
    for i in range(K):
        # Montgomery-type potential of layer i: layers below (j > i) and the layer itself count fully,
        # layers above (j < i, lighter) with rho_j / rho_i
        pr = oro + pot[i]
        for j in range(K):
            if j > i: pr = pr + pot[j]
            elif j < i: pr = pr + pot[j] * float(dens[j] / dens[i])
        av = zeta[i] + f
        ke = (U[i] * U[i] + V[i] * V[i]).sec2() * 0.5
        cz = ((U[i] * av).dlon() + (V[i] * av).dmu()).sec2() * (-1 / a)
        cd = ((V[i] * av).dlon() - (U[i] * av).dmu()).sec2() * (1 / a)
        lp = lap(pr + ke, a)
        h = pot[i] + float(p['ref'][i])
        cp = ((U[i] * h).dlon() + (V[i] * h).dmu()).sec2() * (-1 / a)
        out['vorticity'].append(cz); out['divergence'].append(cd - lp); out['potential'].append(cp)
        mags['vorticity'].append(cz); mags['divergence'] += [cd, lp]; mags['potential'] += [cp, delta[i] * float(p['ref'][i])]
    out['mags'] = mags; out['fields'] = dict(U=U, V=V, zeta=zeta, delta=delta)
    return out


# ---------------------------------------------------------------------------
# implementation side helpers
# ---------------------------------------------------------------------------
GRIDS = {'g9': dict(M=8, L=9, I=25, J=13), 'g7': dict(M=6, L=7, I=19, J=10), 'g12': dict(M=11, L=12, I=34, J=17),
         'g9f': dict(M=8, L=9, I=25, J=13, impl='fast'),
         'g9p': dict(M=8, L=9, I=25, J=13, impl='fast', base_shape_multiple=4),      # padded layouts (modal 9 -> 12, nodal 25x13 -> 28x16)
         'g9o': dict(M=8, L=9, I=25, J=13, offset=0.3),                             # longitude offset
         'gm6': dict(M=6, L=9, I=25, J=13),                                         # total_wavenumbers > longitude_wavenumbers + 1
         'gw': dict(M=8, L=9, I=96, J=13),                                          # wide
         'gt': dict(M=3, L=9, I=4, J=40),
         't4': dict(M=3, L=4, I=8, J=4), 't3': dict(M=2, L=3, I=4, J=3),                 # tiny: the exact whole-state model is affordable
         'gt300': dict(M=5, L=9, I=8, J=300), 'gt520': dict(M=4, L=9, I=6, J=520)}        # tall: hundreds of latitudes                                           # tall, longitude_nodes = 2 (M - 1): zonal states only
_nodes_ok = {}
_cache = {}


def grid_of(name, radius=None):
    key = (name, radius)
    if key not in _cache:
        g = dyn.grid(radius=radius, **GRIDS[name])
        lon, sl = g.nodal_mesh
        lon = np.asarray(lon, dtype=np.float64); sl = np.asarray(sl, dtype=np.float64)
        cl = np.sqrt(1 - sl * sl)
        _cache[key] = (g, cl * np.cos(lon), cl * np.sin(lon), sl)
        # the node coordinates recomputed from the grid DEFINITION (equispaced longitudes from the offset, Gauss-Legendre
        # latitudes from numpy), compared on the unpadded part: the oracle's evaluation points do not rest on the grid's tables
        I, J = g.longitude_nodes, g.latitude_nodes
        lon_def = g.longitude_offset + 2 * np.pi * np.arange(I) / I; mu_def = np.polynomial.legendre.leggauss(J)[0]
        _nodes_ok[key] = (float(np.max(np.abs(lon[:I, :J] - lon_def[:, None]))), float(np.max(np.abs(sl[:I, :J] - mu_def[None, :]))))
    return _cache[key]


def nodes_obligation(ctx, name, radius=None):
    e = _nodes_ok.get((name, radius), (0.0, 0.0))
    ctx.table_obligation('grid nodes = equispaced longitudes (with offset) x Gauss-Legendre latitudes (numpy.leggauss)',
                         e[0] <= 1e-14 and e[1] <= 1e-14, {'lon err': e[0], 'sin(lat) err': e[1], 'grid': name})


def specs_of(consts):
    """consts: None (SI defaults) or [radius, Omega, g, R, Rv, Cpv, kappa] non-dimensional"""
    m = dyn.mods()
    if consts is None: return dyn.pe_specs()
    return m['pe'].PrimitiveEquationsSpecs(*[float(c) for c in consts], m['scales'].DEFAULT_SCALE)


def to_modal(g, v):
    return np.array(g.to_modal(dyn.mods()["jnp"].asarray(v)), dtype=np.float64)


def to_nodal(g, v):
    return np.asarray(g.to_nodal(dyn.mods()['jnp'].asarray(v)), dtype=np.float64)


def nodal_of(fn, xyz):
    x, y, z = xyz
    return np.stack([f.at(x, y, z) + 0 * z for f in fn]) if isinstance(fn, (list, tuple)) else fn.at(x, y, z) + 0 * z


def maxabs(fns, xyz):
    m = 0.0
    for f in fns: m = max(m, float(np.max(np.abs(nodal_of(f, xyz)))))
    return m


def resolved(ctx, g, name, nodal, tol=1e-11, lmax=None):
    """table obligation: the grid represents the field (analysis then synthesis returns the nodal values, nothing above
    total wavenumber lmax); returns the exactly band-limited modal coefficients"""
    mod = to_modal(g, nodal); back = to_nodal(g, mod)
    sc = max(float(np.max(np.abs(nodal))), 1e-300)
    I_, J_ = g.longitude_nodes, g.latitude_nodes            # padded layouts: only the real nodes carry data
    err = float(np.max(np.abs((back - nodal)[..., :I_, :J_])))
    lmax = g.total_wavenumbers - 2 if lmax is None else min(int(lmax), g.total_wavenumbers - 2)
    top = float(np.max(np.abs(mod[..., lmax + 1:]))) if mod.size else 0.0
    ctx.table_obligation('H_resolved: ' + name, err <= tol * sc and top <= tol * sc, {'err': err, 'top': top, 'scale': sc, 'lmax': lmax})
    mod[..., lmax + 1:] = 0.0
    mod[np.abs(mod) < 1e-13 * float(np.max(np.abs(mod)) if mod.size else 0.0)] = 0.0     # analysis rounding noise of absent modes
    return mod


def one_modal(g):
    """modal coefficients of the constant field 1 (only the (0,0) entry)"""
    o = to_modal(g, np.ones(g.nodal_shape)); out = np.zeros_like(o); out[0, 0] = o[0, 0]
    return out


def upwind_np(w, X, cen):
    """documented first-order upwind vertical advection (compact form, sigma_coordinates.upwind_vertical_advection):
    -(max(w_{n-1/2}, 0) dX_{n-1/2} + min(w_{n+1/2}, 0) dX_{n+1/2}), zero velocity and zero difference at top and bottom;
    w: (K-1, ...) boundary velocities, X: (K, ...) layer values"""
    K = X.shape[0]
    if K == 1: return np.zeros_like(X)
    sh = (K - 1,) + (1,) * (X.ndim - 1)
    d = (X[1:] - X[:-1]) / (cen[1:] - cen[:-1]).reshape(sh)
    z = np.zeros((1,) + np.broadcast_shapes(w.shape[1:], d.shape[1:]))
    w = np.broadcast_to(w, (K - 1,) + z.shape[1:]); d = np.broadcast_to(d, (K - 1,) + z.shape[1:])
    w_up = np.concatenate([z, w]); w_down = np.concatenate([w, z])
    d_up = np.concatenate([z, d]); d_down = np.concatenate([d, z])
    return -(np.maximum(w_up, 0) * d_up + np.minimum(w_down, 0) * d_down)


def centered_np(w, X, cen):
    """documented centred vertical advection: -(w_{n+1/2} dX_{n+1/2} + w_{n-1/2} dX_{n-1/2}) / 2, zero boundary velocity"""
    K = X.shape[0]
    if K == 1: return np.zeros_like(X)
    sh = (K - 1,) + (1,) * (X.ndim - 1)
    d = (X[1:] - X[:-1]) / (cen[1:] - cen[:-1]).reshape(sh)
    z = np.zeros((1,) + np.broadcast_shapes(w.shape[1:], d.shape[1:]))
    wd = np.broadcast_to(w, (K - 1,) + z.shape[1:]) * np.broadcast_to(d, (K - 1,) + z.shape[1:])
    return -0.5 * (np.concatenate([z, wd]) + np.concatenate([wd, z]))


def compare_modal(ctx, clause, g, impl, spec_nodal, scale, tol=1e-10, extra_modal=None):
    """impl: modal total tendency; spec_nodal: nodal values of the pointwise spec (+ an optional modal contribution
    obtained by the linear spectral operators from independently evaluated nodal terms); all coefficients below the top wavenumber"""
    spec = to_modal(g, spec_nodal)
    if extra_modal is not None: spec = spec + np.asarray(extra_modal, dtype=np.float64)
    top = g.total_wavenumbers - 1                     # index of the clipped top total wavenumber (padded layouts are longer)
    a = np.asarray(impl, dtype=np.float64)[..., :top]; b = spec[..., :top]
    ctx.oracle_close(clause, a, b, scale=scale, tol_rel=tol)
    pad = np.asarray(impl, dtype=np.float64)[..., g.total_wavenumbers:]
    if pad.size: ctx.exact('padding of the modal layout stays zero: ' + clause[:40], float(np.max(np.abs(pad))), 0.0)
    # the top total wavenumber of the explicit part is clipped, of the implicit part empty for resolved states
    return spec


# ---------------------------------------------------------------------------
# Oracle A: primitive equations
# ---------------------------------------------------------------------------
def _pe_polys(rng, K, kind, degree, amp):
    st = dict(psi=[rand_poly(rng, degree, amp=amp['psi']) for _ in range(K)],
              chi=[rand_poly(rng, degree, amp=amp['chi']) for _ in range(K)],
              Tp=[rand_poly(rng, degree, amp=amp['T']) for _ in range(K)],
              lnps=rand_poly(rng, degree, amp=amp['lnps']), oro=rand_poly(rng, degree, amp=amp['oro']))
    st['tr'] = [rand_poly(rng, degree, amp=0.5) for _ in range(K)]          # a generic advected tracer, every class
    if kind in ('moist', 'cloud'):
        st['q'] = [[[0, 0, 0, 0.01]] + rand_poly(rng, degree, amp=0.004) for _ in range(K)]
    if kind == 'cloud':
        st['qc'] = [rand_poly(rng, degree, amp=0.002) for _ in range(K)]
        st['qi'] = [rand_poly(rng, degree, amp=0.002) for _ in range(K)]
    return st


def r_pe_pointwise(ctx, a):
    m = dyn.mods(); pe = m['pe']; jnp = m['jnp']
    kind = a['kind']; specs = specs_of(a['consts']); b = a['b']; K = len(b) - 1
    g, x, y, z = grid_of(a['grid'], a.get('radius')); xyz = (x, y, z)
    c = dyn.coords(g, b)
    tref = np.asarray(a['tref'], dtype=np.float64)
    P = a['polys']
    fn = {k: ([poly_fn(t) for t in v] if k != 'lnps' and k != 'oro' else poly_fn(v)) for k, v in P.items()}
    T = [fn['Tp'][k] + float(tref[k]) for k in range(K)]
    p = dict(a=float(g.radius), Omega=specs.angular_velocity, R=specs.R, kappa=specs.kappa, g=specs.g, b=b, Rv=specs.R_vapor,
             Cpv=specs.Cp_vapor, Cp=specs.Cp, kind=kind, Tref=tref, vadv=a.get('vadv', 'centered'))
    vmode = a.get('vadv', 'centered'); upwind = vmode in ('upwind', 'none')
    st = dict(psi=fn['psi'], chi=fn['chi'], T=T, lnps=fn['lnps'], oro=fn['oro'])
    tracers = {}
    if a.get('q_zero') and 'q' in fn: fn['q'] = [Fn.const(0.0)] * K         # identically zero humidity in a moist class
    if 'q' in fn: st['q'] = fn['q']; tracers[QN] = fn['q']
    if 'tr' in fn: tracers['tracer_0'] = fn['tr']
    if 'qc' in fn: st['qc'] = fn['qc']; st['qi'] = fn['qi']; tracers[QC] = fn['qc']; tracers[QI] = fn['qi']
    st['tracers'] = tracers
    sp = pe_spec(p, st)
    F = sp['fields']; LM = int(a.get('degree', 2))
    # the modal input state = analysis of the nodal values of the polynomials
    vort = resolved(ctx, g, 'vorticity', nodal_of(F['zeta'], xyz), lmax=LM); div = resolved(ctx, g, 'divergence', nodal_of(F['delta'], xyz), lmax=LM)
    Tp = resolved(ctx, g, 'temperature_variation', nodal_of(fn['Tp'], xyz), lmax=LM)
    lnps = resolved(ctx, g, 'log_surface_pressure', nodal_of([fn['lnps']], xyz), lmax=LM)
    oro = resolved(ctx, g, 'orography', nodal_of(fn['oro'], xyz), lmax=LM)
    trm = {n: resolved(ctx, g, n, nodal_of(v, xyz), lmax=LM) for n, v in tracers.items()}
    vort[..., 0, 0] = 0.0; div[..., 0, 0] = 0.0     # exact zero mean (the analysis leaves rounding noise)
    # configuration options of the equation classes: vertical scheme and dense / matrix-free vertical products
    opts = {}
    if vmode == 'upwind': opts['vertical_advection'] = m['sc'].upwind_vertical_advection
    if vmode == 'none': opts['include_vertical_advection'] = False
    if a.get('matmul') is not None: opts['vertical_matmul_method'] = a['matmul']
    if a.get('tref_int'):      # integer-typed reference temperature array handed to the class as is
        eq = getattr(pe, dyn.PE_CLASSES[kind])(np.asarray(tref).astype(np.int64), jnp.asarray(oro), c, specs, **opts)
    else:
        eq = dyn.pe_equation(kind, c, specs, tref, oro, **opts)
    nodes_obligation(ctx, a['grid'], a.get('radius'))
    kw = dict(vorticity=jnp.asarray(vort), divergence=jnp.asarray(div), temperature_variation=jnp.asarray(Tp),
              log_surface_pressure=jnp.asarray(lnps), tracers={n: jnp.asarray(v) for n, v in trm.items()})
    state = pe.State(**kw) if kind == 'dry' else pe.StateWithTime(sim_time=0.0, **kw)
    ex = eq.explicit_terms(state); im = eq.implicit_terms(state)
    tot = lambda name: np.asarray(getattr(ex, name), dtype=np.float64) + np.asarray(getattr(im, name), dtype=np.float64)
    ctx.count('pe_pointwise:%s K=%d %s vadv=%s matmul=%s' % (kind, K, a['grid'], a.get('vadv', 'centered'), a.get('matmul')))
    M = sp['mags']
    Kk, cen, th, al = sigma_tables(b)
    xv = xd = None; upT = 0.0; upX = {}; upsc = 0.0
    if upwind:
        # documented upwind differences, evaluated at the nodes from the exact nodal sigma_dot (polynomial ring) and fields
        sd = nodal_of(F['sdot'], xyz) if K > 1 else np.zeros((0,) + x.shape)
        sdG = nodal_of(F['sdotG'], xyz) if K > 1 else sd; sdD = nodal_of(F['sdotD'], xyz) if K > 1 else sd
        if K > 1 and vmode == 'upwind':
            ctx.oracle('upwind cases: sigma_dot takes both signs (upward and downward motion)',
                       float(sd.min()) < 0 < float(sd.max()), {'min': float(sd.min()), 'max': float(sd.max())})
        Un = nodal_of(F['U'], xyz); Vn = nodal_of(F['V'], xyz); s2n = 1.0 / (1.0 - z * z)
        trefb = tref.reshape((K,) + (1,) * x.ndim)
        if vmode == 'upwind':
            Pu = -upwind_np(sd, Un, cen); Qu = -upwind_np(sd, Vn, cen)             # + sigma_dot dU/dsigma in the momentum vector
            A = jnp.asarray(to_modal(g, Pu * s2n)); B = jnp.asarray(to_modal(g, Qu * s2n))
            xv = -np.asarray(g.clip_wavenumbers(g.curl_cos_lat((A, B), clip=False)), dtype=np.float64)
            xd = -np.asarray(g.clip_wavenumbers(g.div_cos_lat((A, B), clip=False)), dtype=np.float64)
            upsc = float(np.max(np.abs(xv))) + float(np.max(np.abs(xd)))
            # temperature: T' and (explicitly) T_ref by upwind differences; the divergence part of sigma_dot acting on T_ref is
            # inside the implicit operator H, which is built from centred differences (semi-implicit split)
            upT = upwind_np(sd, nodal_of(fn['Tp'], xyz), cen) + upwind_np(sdG, trefb, cen) + centered_np(sdD, trefb, cen)
            upX = {n: upwind_np(sd, nodal_of(v, xyz), cen) for n, v in tracers.items()}
        else:
            # include_vertical_advection=False: no vertical advection of momentum, T' and tracers; the reference profile is still
            # advected (explicitly by the u.grad(lnps) part of sigma_dot, implicitly inside H), centred differences
            upT = centered_np(sdG, trefb, cen) + centered_np(sdD, trefb, cen) + 0 * x
            upX = {}
    compare_modal(ctx, f'{kind}: vorticity tendency = analysis of -k.curl((zeta+f) k x v + sigma_dot dv/dsigma + R Tv grad lnps)',
                  g, tot('vorticity'), nodal_of(sp['vorticity'], xyz), maxabs(M['vorticity'], xyz) + upsc + 1e-300, extra_modal=xv)
    compare_modal(ctx, f'{kind}: divergence tendency = analysis of -div(...) - lap(KE + Phi)',
                  g, tot('divergence'), nodal_of(sp['divergence'], xyz), maxabs(M['divergence'], xyz) + upsc + 1e-300, extra_modal=xd)
    compare_modal(ctx, f'{kind}: log surface pressure tendency = analysis of -sum dsigma (div + u.grad lnps)',
                  g, tot('log_surface_pressure'), nodal_of([sp['lnps']], xyz), maxabs(M['lnps'], xyz) + 1e-300)
    Tn = nodal_of(T, xyz); wp = nodal_of(sp['T_omega'], xyz); adv = nodal_of(sp['T_adv'], xyz)
    fac = 1.0
    if kind in ('moist', 'cloud'):
        qn = nodal_of(fn['q'], xyz)
        fac = (1 + (specs.R_vapor / specs.R - 1) * qn) / (1 + (specs.Cp_vapor / specs.Cp - 1) * qn)
    ad = specs.kappa * Tn * fac * wp
    compare_modal(ctx, f'{kind}: temperature tendency = analysis of -u.grad T - sigma_dot dT/dsigma + kappa Tv omega/p',
                  g, tot('temperature_variation'), adv + ad + upT,
                  float(np.max(np.abs(adv))) + float(np.max(np.abs(ad))) + float(np.max(np.abs(upT))) + 1e-300)
    for n, v in sp['tracers'].items():
        compare_modal(ctx, f'{kind}: tracer tendency = analysis of -u.grad X - sigma_dot dX/dsigma', g,
                      np.asarray(ex.tracers[n], dtype=np.float64) + np.asarray(im.tracers[n], dtype=np.float64),
                      nodal_of(v, xyz) + upX.get(n, 0.0), maxabs(v, xyz) + float(np.max(np.abs(upX.get(n, 0.0)))) + 1e-300)


# ---------------------------------------------------------------------------
# Oracle A: layered shallow water
# ---------------------------------------------------------------------------
def sw_eq(c, dens, ref, oro, omega, g=1.0, radius=1.0):
    m = dyn.mods(); sw = m['sw']
    specs = sw.ShallowWaterSpecs(np.asarray(dens, dtype=np.float64), float(radius), float(omega), float(g), m['scales'].DEFAULT_SCALE)
    return sw.ShallowWaterEquations(c, specs, oro, np.asarray(ref, dtype=np.float64))


def sw_total(eq, vort, div, pot):
    m = dyn.mods(); jnp = m['jnp']; sw = m['sw']
    st = sw.State(jnp.asarray(vort), jnp.asarray(div), jnp.asarray(pot))
    ex = eq.explicit_terms(st); im = eq.implicit_terms(st)
    return {n: np.asarray(getattr(ex, n), dtype=np.float64) + np.asarray(getattr(im, n), dtype=np.float64)
            for n in ('vorticity', 'divergence', 'potential')}


def r_sw_pointwise(ctx, a):
    K = len(a['dens'])
    g, x, y, z = grid_of(a['grid'], a.get('radius')); xyz = (x, y, z)
    c = dyn.layer_coords(g, K)
    P = a['polys']
    fn = dict(psi=[poly_fn(t) for t in P['psi']], chi=[poly_fn(t) for t in P['chi']], pot=[poly_fn(t) for t in P['pot']],
              oro=poly_fn(P['oro']) if a.get('with_oro', True) else Fn.const(0.0))
    p = dict(a=float(g.radius), Omega=a['omega'], dens=a['dens'], ref=a['ref'])
    sp = sw_spec(p, fn); F = sp['fields']; LM = int(a.get('degree', 2))
    vort = resolved(ctx, g, 'vorticity', nodal_of(F['zeta'], xyz), lmax=LM); div = resolved(ctx, g, 'divergence', nodal_of(F['delta'], xyz), lmax=LM)
    pot = resolved(ctx, g, 'potential', nodal_of(fn['pot'], xyz), lmax=LM); oro = resolved(ctx, g, 'orography', nodal_of(fn['oro'], xyz), lmax=LM)
    vort[..., 0, 0] = 0.0; div[..., 0, 0] = 0.0
    eq = sw_eq(c, a['dens'], a['ref'], oro if a.get('with_oro', True) else None, a['omega'], radius=float(g.radius))
    tot = sw_total(eq, vort, div, pot)
    ctx.count('sw_pointwise: K=%d %s' % (K, a['grid']))
    M = sp['mags']
    compare_modal(ctx, 'shallow water: vorticity tendency = analysis of -div((zeta+f) v)', g, tot['vorticity'],
                  nodal_of(sp['vorticity'], xyz), maxabs(M['vorticity'], xyz) + 1e-300)
    compare_modal(ctx, 'shallow water: divergence tendency = analysis of k.curl((zeta+f) v) - lap(sum_j R_ij Phi_j + Phi_s + KE)', g,
                  tot['divergence'], nodal_of(sp['divergence'], xyz), maxabs(M['divergence'], xyz) + 1e-300)
    compare_modal(ctx, 'shallow water: potential tendency = analysis of -div(v (Phi_ref + Phi))', g, tot['potential'],
                  nodal_of(sp['potential'], xyz), maxabs(M['potential'], xyz) + 1e-300)


# ---------------------------------------------------------------------------
# Oracle B: balanced states
# ---------------------------------------------------------------------------
def steady(ctx, clause, tend, scale, tol=1e-10):
    """every coefficient of the total tendency is zero relative to the largest individual term"""
    t = np.asarray(tend, dtype=np.float64)
    ctx.oracle_close(clause, t, np.zeros_like(t), scale=scale, tol_rel=tol)
    return float(np.max(np.abs(t))) / scale if t.size else 0.0


def pe_total(eq, kind, vort, div, Tp, lnps, tracers):
    m = dyn.mods(); pe = m['pe']; jnp = m['jnp']
    kw = dict(vorticity=jnp.asarray(vort), divergence=jnp.asarray(div), temperature_variation=jnp.asarray(Tp),
              log_surface_pressure=jnp.asarray(lnps), tracers={n: jnp.asarray(v) for n, v in tracers.items()})
    state = pe.State(**kw) if kind == 'dry' else pe.StateWithTime(sim_time=0.0, **kw)
    ex = eq.explicit_terms(state); im = eq.implicit_terms(state)
    out = {n: np.asarray(getattr(ex, n), dtype=np.float64) + np.asarray(getattr(im, n), dtype=np.float64)
           for n in ('vorticity', 'divergence', 'temperature_variation', 'log_surface_pressure')}
    out['tracers'] = {n: np.asarray(ex.tracers[n], dtype=np.float64) + np.asarray(im.tracers[n], dtype=np.float64) for n in tracers}
    return out, ex, im


def r_pe_rest(ctx, a):
    """resting isothermal atmosphere over arbitrary (resolved) orography, lnps = c - g oro / (R T0 (1 + eps q0))"""
    kind = a['kind']; specs = specs_of(a['consts']); b = a['b']; K = len(b) - 1
    g, x, y, z = grid_of(a['grid'], a.get('radius'))
    c = dyn.coords(g, b)
    rng = np.random.default_rng([a['seed'], 5])
    oro = dyn.modal_field(rng, g, (), degree=g.total_wavenumbers - 2, amp=a['oro_amp'], denom=64)
    T0 = float(a['T0']); q0 = float(a.get('q0', 0.0)) if kind in ('moist', 'cloud') else 0.0
    tref = np.asarray(a['tref'], dtype=np.float64) if a.get('tref') else np.full(K, T0)
    one = one_modal(g)
    eps = specs.R_vapor / specs.R - 1
    lnps = (a['c'] * one - specs.g * oro / (specs.R * T0 * (1 + eps * q0)))[None]
    zero = np.zeros((K,) + tuple(g.modal_shape))
    Tp = zero + (T0 - tref)[:, None, None] * one
    tracers = {}
    if kind in ('moist', 'cloud'): tracers[QN] = zero + q0 * one
    if kind == 'cloud': tracers[QC] = zero + 0.0; tracers[QI] = zero + 0.0
    eq = dyn.pe_equation(kind, c, specs, tref, oro)
    tot, ex, im = pe_total(eq, kind, zero, zero, Tp, lnps, tracers)
    term = float(np.max(np.abs(specs.g * np.asarray(g.laplacian(oro))))) + specs.R * T0 * (abs(a['c']) + 1) * 1e-2
    ctx.count('pe_rest:%s K=%d split=%d' % (kind, K, int(bool(a.get('tref')))))
    # non-vacuity: the individual halves are not zero
    ctx.oracle('rest state: the orographic term is exercised', float(np.max(np.abs(np.asarray(im.divergence)))) > 0.05 * term or a['oro_amp'] == 0,
               {'implicit': float(np.max(np.abs(np.asarray(im.divergence)))), 'term': term})
    steady(ctx, f'{kind}: resting isothermal atmosphere over orography: divergence tendency = 0', tot['divergence'], term)
    steady(ctx, f'{kind}: resting isothermal atmosphere over orography: vorticity tendency = 0', tot['vorticity'], term)
    tterm = specs.kappa * T0 * term + 1e-300
    steady(ctx, f'{kind}: resting isothermal atmosphere over orography: temperature tendency = 0', tot['temperature_variation'], tterm)
    steady(ctx, f'{kind}: resting isothermal atmosphere over orography: surface pressure tendency = 0', tot['log_surface_pressure'], term)
    for n, v in tot['tracers'].items():
        steady(ctx, f'{kind}: resting isothermal atmosphere: tracer tendency = 0', v, term)


# ---------------------------------------------------------------------------
# the EXECUTED whole-state model at rest (C05_whole_state_rest_isothermal_steady)
# ---------------------------------------------------------------------------
def r_whole_state_rest(ctx, a):
    """resting isothermal atmosphere on a tiny real grid (dry class, or the moist class with uniform humidity q0): the real
    explicit_terms + implicit_terms against the theorem's conclusion (zero / g/(1+eps q0) (lap orog - clip lap orog)), the named
    table hypotheses of the moist theorem, and the extracted whole-state model (Model/PrimEqFull.v) on the same state"""
    m = dyn.mods(); pe = m['pe']; jnp = m['jnp']; sh = m['sh']
    kind = a.get('kind', 'dry'); moist = kind == 'moist'
    specs = specs_of(a['consts']); b = a['b']; K = len(b) - 1
    g, x, y, z = grid_of(a['grid'], a.get('radius'))
    c = dyn.coords(g, b)
    M, L = g.longitude_wavenumbers, g.total_wavenumbers
    I, Jn = g.nodal_shape; R = g.modal_shape[0]
    basis = g.spherical_harmonics.basis
    tf, tp, tw = np.asarray(basis.f), np.asarray(basis.p), np.asarray(basis.w)
    ta, tb = (np.asarray(t) for t in g._derivative_recurrence_weights)
    sec2 = np.asarray(g.sec2_lat); sin_lat = np.asarray(g.nodal_axes[1])
    ok_shapes = (tuple(g.modal_shape) == (2 * M - 1, L) and tf.shape == (I, R) and tp.shape == (R, Jn, L) and tw.shape == (Jn,)
                 and ta.shape == (R, L) and tb.shape == (R, L) and sec2.shape == (Jn,) and sin_lat.shape == (Jn,))
    ctx.exact('whole-state rest: table shapes of the reference layout', bool(ok_shapes), True)
    if not ok_shapes: return
    rng = np.random.default_rng([a['seed'], 14])
    # random orography inside the triangular mask; with top=1 also in the clipped total wavenumber L-1 (the residual clause)
    oro = rng.integers(-64, 65, size=tuple(g.modal_shape)).astype(np.float64) / 64 * a['oro_amp']
    ll = np.arange(L)[None, :]
    oro = oro * np.asarray(g.mask) * ((ll <= L - 1) if a.get('top') else (ll < L - 1))
    T0 = float(a['T0']); tref = np.full(K, T0)
    q0 = float(a.get('q0', 0.0)) if moist else 0.0
    eps = specs.R_vapor / specs.R - 1; mf = 1 + eps * q0
    one = one_modal(g)
    lnps = (a['c'] * one - specs.g * oro / (specs.R * T0 * mf))
    zero = np.zeros((K,) + tuple(g.modal_shape))
    qm = zero + q0 * one
    tracers = {QN: qm} if moist else {}
    eq = dyn.pe_equation(kind, c, specs, tref, oro)
    tot_, ex, im = pe_total(eq, kind, zero, zero, zero, lnps[None], tracers)
    names = ['vorticity', 'divergence', 'temperature_variation', 'log_surface_pressure']
    fe = [np.asarray(getattr(ex, n), dtype=np.float64) for n in names]
    fi = [np.asarray(getattr(im, n), dtype=np.float64) for n in names]
    lam = np.asarray(g.laplacian_eigenvalues, dtype=np.float64); LAM = float(np.max(np.abs(lam)))
    lap_oro = oro * lam[None, :]
    clip_lap = lap_oro * (np.arange(L) < L - 1)[None, :]
    # magnitude of the terms summed: g lap(orog), lap(R T0 lnps) including the horizontally constant part R T0 c times the eigenvalue;
    # moist: lap of the (horizontally constant) humidity part of the geopotential and the q T_ref (Rv - R) laplacian(lnps) correction
    alpha = np.asarray(pe.get_sigma_ratios(c.vertical), dtype=np.float64)
    term = LAM * (specs.g * float(np.max(np.abs(oro))) + specs.R * T0 * float(np.max(np.abs(lnps)))) + 1e-300
    if moist:
        term += LAM * (specs.R * float(np.max(np.abs(alpha))) * 2 * K * q0 * T0 * abs(eps) * float(np.max(np.abs(one)))
                       + q0 * T0 * abs(specs.R_vapor - specs.R) * float(np.max(np.abs(lnps))))
    resid = specs.g / mf * (lap_oro - clip_lap)
    tot = [fe[k] + fi[k] for k in range(4)]
    if moist:
        # ---- the named table hypotheses of C05_whole_state_rest_isothermal_steady_moist, on the implementation's own operators ----
        err1 = float(np.max(np.abs(to_nodal(g, one) - 1.0)))
        ctx.table_obligation('H_one: to_nodal of the (0,0)-only spectrum of the constant is the constant one', err1 <= 2.0 ** -36, {'error': err1})
        ctx.exact('whole-state rest (moist): the humidity spectrum is q0 times the (0,0)-only spectrum (Hq_modal)',
                  bool(np.all(qm == q0 * one[None]) and np.count_nonzero(one) == 1 and one[0, 0] != 0), True)
        qn = to_nodal(g, qm)
        ctx.table_obligation('H_q_uniform: to_nodal of the uniform-humidity spectrum is q0 at every node', float(np.max(np.abs(qn - q0))) <= 2.0 ** -36 * abs(q0) + 1e-300,
                             {'error': float(np.max(np.abs(qn - q0)))})
        gq = sh_grad = g.cos_lat_grad(jnp.asarray(qm), clip=False)
        gqn = max(float(np.max(np.abs(to_nodal(g, np.asarray(t))))) for t in gq)
        ctx.table_obligation('H_gradq_zero: the nodal cos-lat gradient of the uniform humidity vanishes', gqn <= 2.0 ** -36 * abs(q0) * L / float(g.radius) + 1e-300, {'max': gqn})
        t1 = to_modal(g, np.ones(g.nodal_shape))
        e1 = float(np.max(np.abs(np.asarray(g.laplacian(jnp.asarray(t1))))))
        ctx.table_obligation('H_lap_one: laplacian(to_modal(1)) = 0 on every coefficient', e1 <= 2.0 ** -36 * LAM * float(np.max(np.abs(t1))), {'max': e1})
        ll_ = np.asarray(g.laplacian(jnp.asarray(lnps)), dtype=np.float64)
        back = np.asarray(g.clip_wavenumbers(g.to_modal(g.to_nodal(jnp.asarray(ll_)))), dtype=np.float64)
        e2 = float(np.max(np.abs(back - np.asarray(g.clip_wavenumbers(jnp.asarray(ll_))))))
        ctx.table_obligation('H_lapn: clip(to_modal(to_nodal(laplacian(lnps)))) = clip(laplacian(lnps))', e2 <= 2.0 ** -36 * LAM * float(np.max(np.abs(lnps))) * L * L,
                             {'error': e2})
    ctx.oracle('whole-state rest: the implicit orographic term is exercised', float(np.max(np.abs(fi[1]))) > 0.01 * specs.g * float(np.max(np.abs(lap_oro))) or a['oro_amp'] == 0,
               {'implicit': float(np.max(np.abs(fi[1])))})
    if a.get('top'):
        ctx.oracle('whole-state rest: the residual clause is exercised (orography has content in the clipped wavenumber)', float(np.max(np.abs(resid))) > 0, None)
    ctx.oracle_close('whole-state rest (%s): divergence tendency = g/(1+eps q0) (lap orog - clip lap orog) on every coefficient' % kind, tot[1], resid[None] + 0 * tot[1], scale=term, tol_rel=1e-10)
    steady(ctx, 'whole-state rest (%s): divergence tendency = 0 below the clipped total wavenumber' % kind, tot[1][..., :L - 1], term)
    steady(ctx, 'whole-state rest (%s): vorticity tendency = 0' % kind, tot[0], term)
    steady(ctx, 'whole-state rest (%s): temperature tendency = 0' % kind, tot[2], specs.kappa * T0 * term + 1e-300)
    steady(ctx, 'whole-state rest (%s): surface pressure tendency = 0' % kind, tot[3], term)
    # ---- the extracted whole-state model on the same state ----
    ls = np.log(c.vertical.centers)
    ints = [M, L, I, Jn, K, 1 if moist else 0]
    base = [tf.ravel(), tp.ravel(), tw, ta.ravel(), tb.ravel(), sec2, sin_lat,
            [g.radius, specs.angular_velocity, specs.g, specs.R, specs.kappa, specs.R_vapor, specs.Cp_vapor], ls, b, tref, oro.ravel(),
            zero.ravel(), zero.ravel(), zero.ravel(), lnps.ravel(), qm.ravel() if moist else []]
    n3 = K * R * L
    def split(mo):
        return [mo[:n3], mo[n3:2 * n3], mo[2 * n3:3 * n3], mo[3 * n3:3 * n3 + R * L]]
    me = split(ctx.model.call(32 if moist else 30, ints, base)); mi = split(ctx.model.call(31, ints, base))
    sc = [term, term, specs.kappa * T0 * term + 1e-300, term]
    for k, n_ in enumerate(names):
        ctx.corr('whole-state rest (composed %s model): explicit_terms %s' % (kind, n_), fe[k], me[k], scale=sc[k])
        ctx.corr('whole-state rest (composed %s model): implicit_terms %s' % (kind, n_), fi[k], mi[k], scale=sc[k])
    # the theorem's conclusion on the MODEL outputs, exactly up to the rounding of the float lnps / tables handed to it
    mtot = np.array([float(u_ + v_) for u_, v_ in zip(me[1], mi[1])]).reshape(tot[1].shape)
    ctx.oracle_close('whole-state rest (%s): the model total divergence tendency is the stated residual' % kind, mtot, resid[None] + 0 * mtot, scale=term, tol_rel=1e-10)
    for k in (0, 2, 3):
        ctx.exact('whole-state rest (%s): model explicit+implicit %s tendency exactly zero' % (kind, names[k]),
                  all(u_ + v_ == 0 for u_, v_ in zip(me[k], mi[k])), True)
    ctx.count('whole_state_rest:%s %s K=%d top=%d' % (kind, a['grid'], K, int(bool(a.get('top')))))


def r_pe_rest_states(ctx, a):
    """primitive_equations_states.isothermal_rest_atmosphere: flat orography (exactly steady) and with surface height
    (standard-atmosphere pressure: only approximately balanced, exploration with a loose tolerance)"""
    m = dyn.mods(); jax = m['jax']; units = m['scales'].units
    from dinosaur import primitive_equations_states as pes, xarray_utils
    specs = dyn.pe_specs(); b = a['b']; K = len(b) - 1
    g, x, y, z = grid_of(a['grid'])
    c = dyn.coords(g, b)
    h = None
    if a['height_m'] > 0:
        h = a['height_m'] * (0.5 + 0.5 * poly_fn(a['shape']).at(x, y, z) / max(1e-9, np.max(np.abs(poly_fn(a['shape']).at(x, y, z))))) * units.meter
    fn, aux = pes.isothermal_rest_atmosphere(c, specs, tref=a['T0'] * units.degK, p0=a.get('p0', 1e5) * units.pascal, p1=0. * units.pascal, surface_height=h)
    st = fn(jax.random.PRNGKey(a['seed']))
    oro_nodal = np.asarray(aux[xarray_utils.OROGRAPHY]); tref = np.asarray(aux[xarray_utils.REF_TEMP_KEY])
    oro = to_modal(g, oro_nodal)
    eq = dyn.pe_equation('dry', c, specs, tref, oro)
    tot, ex, im = pe_total(eq, 'dry', st.vorticity, st.divergence, st.temperature_variation, st.log_surface_pressure, {})
    term = float(np.max(np.abs(specs.g * np.asarray(g.laplacian(oro))))) + 1e-300
    ctx.count('pe_rest_states: height=%g' % a['height_m'])
    if a['height_m'] == 0:
        sc = float(np.max(np.abs(np.asarray(im.divergence)))) + specs.R * float(a['T0'])
        for n in ('divergence', 'vorticity', 'temperature_variation', 'log_surface_pressure'):
            steady(ctx, f'isothermal_rest_atmosphere (flat): {n} tendency = 0', tot[n], sc)
    else:
        r = float(np.max(np.abs(tot['divergence']))) / term
        ctx.oracle('exploration: isothermal_rest_atmosphere over orography approximately balanced (standard-atmosphere surface pressure, loose 0.2)',
                   r <= 0.2, {'relative residual': r})
        for n in ('vorticity', 'temperature_variation', 'log_surface_pressure'):
            steady(ctx, f'isothermal_rest_atmosphere (orography): {n} tendency = 0', tot[n], term * (1 + specs.kappa * a['T0']))


def geo_weights(b, R):
    K, cen, th, al = sigma_tables(b)
    G = np.zeros((K, K))
    for j in range(K):
        G[j, j] = R * al[j]
        for k in range(j + 1, K): G[j, k] = R * (al[k] + al[k - 1])
    return G


def r_pe_solid_body(ctx, a):
    """zonal solid-body rotation u_k = U_k cos(lat) in gradient-wind balance: uniform surface pressure, Phi_s = g*gamma*mu^2,
    T_k = Tbar_k + tau_k mu^2 with G.((1+eps q0) tau) = -(U_k^2/2 + a Omega U_k) - g gamma (tau = 0 for a barotropic U and the
    balancing gamma), or (mode 'isothermal') uniform T, lnps = c + beta mu^2 and Phi_s = g gamma mu^2 sharing the balance."""
    kind = a['kind']; specs = specs_of(a['consts']); b = a['b']; K = len(b) - 1
    g, x, y, z = grid_of(a['grid'], a.get('radius')); xyz = (x, y, z)
    c = dyn.coords(g, b); rad = float(g.radius); Om = specs.angular_velocity; R = specs.R
    eps = specs.R_vapor / R - 1; q0 = float(a.get('q0', 0.0)) if kind in ('moist', 'cloud') else 0.0
    Uk = np.asarray(a['U'], dtype=np.float64); Tbar = np.asarray(a['Tbar'], dtype=np.float64); tref = np.asarray(a['tref'], dtype=np.float64)
    need = -(Uk ** 2 / 2 + rad * Om * Uk)                     # coefficient of mu^2 in R Tv lnps + Phi_k
    mu2 = Z * Z
    if a['mode'] == 'isothermal':
        beta = float(a['beta']); gam = (need[0] - R * Tbar[0] * (1 + eps * q0) * beta) / specs.g
        tau = np.zeros(K)
    else:
        beta = 0.0; gam = float(a['gamma'])
        tau = np.linalg.solve(geo_weights(b, R) * (1 + eps * q0), need - specs.g * gam)
    psi = [Z * (-rad * Uk[k]) for k in range(K)]; chi = [Fn.const(0.0)] * K
    T = [mu2 * float(tau[k]) + float(Tbar[k]) for k in range(K)]
    lnps = mu2 * beta + float(a['c']); oro = mu2 * gam
    st = dict(psi=psi, chi=chi, T=T, lnps=lnps, oro=oro)
    tracers = {}
    if kind in ('moist', 'cloud'): st['q'] = [Fn.const(q0)] * K; tracers[QN] = st['q']
    if kind == 'cloud': st['qc'] = [Fn.const(0.0)] * K; st['qi'] = st['qc']; tracers[QC] = st['qc']; tracers[QI] = st['qc']
    st['tracers'] = tracers
    p = dict(a=rad, Omega=Om, R=R, kappa=specs.kappa, g=specs.g, b=b, Rv=specs.R_vapor, Cpv=specs.Cp_vapor, Cp=specs.Cp, kind=kind, Tref=tref)
    sp = pe_spec(p, st); F = sp['fields']; LM = 2
    vort = resolved(ctx, g, 'vorticity', nodal_of(F['zeta'], xyz), lmax=LM); vort[..., 0, 0] = 0.0
    div = np.zeros_like(vort)
    Tp = resolved(ctx, g, 'temperature_variation', nodal_of([T[k] - float(tref[k]) for k in range(K)], xyz), lmax=LM)
    lm = resolved(ctx, g, 'log_surface_pressure', nodal_of([lnps], xyz), lmax=LM); om = resolved(ctx, g, 'orography', nodal_of(oro, xyz), lmax=LM)
    trm = {n: resolved(ctx, g, n, nodal_of(v, xyz), lmax=LM) for n, v in tracers.items()}
    eq = dyn.pe_equation(kind, c, specs, tref, om)
    tot, ex, im = pe_total(eq, kind, vort, div, Tp, lm, trm)
    M = sp['mags']
    dsc = max(float(np.max(np.abs(to_modal(g, nodal_of(f, xyz))))) for f in M['divergence']) + 1e-300
    ctx.count('pe_solid_body:%s K=%d %s' % (kind, K, a['mode']))
    # the spec itself is balanced (sanity of the analytic family; proved in Coq as C05_solid_body_steady)
    wc = (1 - z * z >= 0.02)      # the plugin's own polynomial evaluation is ill-conditioned next to the poles of tall grids
    ctx.table_obligation('solid-body family satisfies the pointwise balance (spec divergence tendency = 0)',
                         float(np.max(np.abs(nodal_of(sp['divergence'], xyz) * wc))) <= 1e-9 * (maxabs(M['divergence'], xyz) + 1e-300),
                         {'residual': float(np.max(np.abs(nodal_of(sp['divergence'], xyz) * wc))), 'scale': maxabs(M['divergence'], xyz)})
    # "largest individual term" of the divergence equation: M['divergence'] holds lap(Phi_k) AFTER the Laplacian, which
    # annihilates the horizontally constant part R G.Tbar of the geopotential analytically; numerically that part is still
    # summed (its rounding error leaks into l <= LM with the eigenvalue LM (LM+1) / a^2), so it belongs to the scale
    # (false alarm on the tall grid gt300, seed 0, relative residual 1.9e-10 of the differentiated terms: DESIGN 9.2)
    geo_mag = float(np.max(np.abs(geo_weights(b, R)) @ ((np.abs(Tbar) + np.abs(tau)) * (1 + abs(eps) * q0)))) + abs(specs.g * gam)
    dsc_div = dsc + LM * (LM + 1) / rad ** 2 * geo_mag
    steady(ctx, f'{kind}: solid-body rotation in gradient-wind balance ({a["mode"]}): divergence tendency = 0', tot['divergence'], dsc_div)
    steady(ctx, f'{kind}: solid-body rotation ({a["mode"]}): vorticity tendency = 0', tot['vorticity'], dsc)
    adv = float(np.max(np.abs(Uk))) / rad
    steady(ctx, f'{kind}: solid-body rotation ({a["mode"]}): temperature tendency = 0', tot['temperature_variation'],
           adv * float(np.max(np.abs(Tbar)) + np.max(np.abs(tau))) + 1e-300)
    steady(ctx, f'{kind}: solid-body rotation ({a["mode"]}): surface pressure tendency = 0', tot['log_surface_pressure'],
           adv * (abs(beta) + abs(float(a['c'])) + 1) + 1e-300)
    for n, v in tot['tracers'].items():
        steady(ctx, f'{kind}: solid-body rotation ({a["mode"]}): tracer tendency = 0', v, float(np.max(np.abs(Uk))) / rad * max(q0, 1e-3))


def _jet_nodal(g, z, w):
    """u(lat) = cos(lat) * w(mu), w a polynomial (list of coefficients, increasing degree), on the latitude nodes"""
    mu = np.asarray(g.nodal_axes[1], dtype=np.float64)
    return np.sqrt(1 - mu * mu) * np.polynomial.polynomial.polyval(mu, np.asarray(w, dtype=np.float64))


def r_sw_states(ctx, a):
    """shallow_water_states.one_layer / multi_layer on band-limited jets u = cos(lat) w(mu): steady for the unit sphere with
    2*Omega = 1 (which these constructors hard-code through get_coriolis = sin(lat) and the missing 1/radius factors)"""
    m = dyn.mods(); jnp = m['jnp']
    from dinosaur import shallow_water_states as sws
    K = len(a['dens']); g, x, y, z = grid_of(a['grid']); xyz = (x, y, z)
    c = dyn.layer_coords(g, K)
    u = np.stack([_jet_nodal(g, z, w) for w in a['w']])
    if a['fn'] == 'one_layer':
        st = sws.one_layer(jnp.asarray(u[0]), g)
        vort, div, pot = (np.asarray(t, dtype=np.float64)[None] for t in (st.vorticity, st.divergence, st.potential))
    else:
        st = sws.multi_layer(jnp.asarray(u), np.asarray(a['dens'], dtype=np.float64), c)
        vort, div, pot = (np.asarray(t, dtype=np.float64) for t in (st.vorticity, st.divergence, st.potential))
    eq = sw_eq(c, a['dens'], a['ref'], None, 0.5)
    tot = sw_total(eq, vort, div, pot)
    # individual terms from the pointwise spec of the same zonal state
    deg = max(len(w) for w in a['w'])
    p = dict(a=1.0, Omega=0.5, dens=a['dens'], ref=a['ref'])
    psi = []
    for w in a['w']:
        # U = (1 - mu^2) w = -d_mu psi  =>  psi = - integral of w
        ip = np.polynomial.polynomial.polyint(np.asarray(w, dtype=np.float64))
        psi.append(poly_fn([[0, 0, k, -float(cf)] for k, cf in enumerate(ip)]))
    potn = to_nodal(g, pot)
    sp = sw_spec(p, dict(psi=psi, chi=[Fn.const(0.0)] * K, pot=[Fn.const(0.0)] * K, oro=Fn.const(0.0)))
    dsc = max(float(np.max(np.abs(to_modal(g, nodal_of(f, xyz))))) for f in sp['mags']['divergence']) + 1e-300
    ctx.count('sw_states:%s K=%d deg=%d' % (a['fn'], K, deg))
    ctx.exact('balanced state has zero divergence', float(np.max(np.abs(div))), 0.0)
    ctx.oracle_close('balanced state vorticity = analysis of -d(u cos)/d(mu)', vort[..., :-1],
                     to_modal(g, nodal_of(sp['fields']['zeta'], xyz))[..., :-1], scale=float(np.max(np.abs(vort))) + 1e-300, tol_rel=1e-10)
    steady(ctx, f'{a["fn"]}: geostrophically balanced polynomial jet: divergence tendency = 0', tot['divergence'], dsc)
    steady(ctx, f'{a["fn"]}: geostrophically balanced polynomial jet: vorticity tendency = 0', tot['vorticity'], dsc)
    steady(ctx, f'{a["fn"]}: geostrophically balanced polynomial jet: potential tendency = 0', tot['potential'],
           float(np.max(np.abs(u))) * (float(np.max(np.abs(potn))) + float(np.max(np.abs(a['ref'])))) + 1e-300)


def r_sw_balanced(ctx, a):
    """constructed geostrophically balanced zonal jets: arbitrary rotation rate, radius, densities, zonal orography:
    d(sum_j R_ij Phi_j + Phi_s + KE_i)/dmu = -a w_i (zeta_i + 2 Omega mu) integrated exactly on polynomials"""
    K = len(a['dens']); g, x, y, z = grid_of(a['grid'], a.get('radius')); xyz = (x, y, z)
    c = dyn.layer_coords(g, K); rad = float(g.radius); Om = float(a['omega'])
    Pn = np.polynomial.polynomial
    dens = np.asarray(a['dens'], dtype=np.float64)
    R = np.minimum(dens[None, :] / dens[:, None], 1.0)             # R[i, j] = min(rho_j / rho_i, 1), diagonal 1
    oro_p = np.asarray(a['oro'], dtype=np.float64)                  # polynomial in mu
    s = []; psi = []
    for w in a['w']:
        w = np.asarray(w, dtype=np.float64)
        U = Pn.polymul([1, 0, -1], w); zeta = -Pn.polyder(U) / rad
        ke = Pn.polymul(U, w) / 2
        rhs = -rad * Pn.polymul(w, Pn.polyadd(zeta, [0, 2 * Om]))
        tot_p = Pn.polyint(rhs)                                     # sum_j R_ij Phi_j + Phi_s + KE
        s.append(Pn.polysub(Pn.polysub(tot_p, ke), oro_p))
        ip = Pn.polyint(w); psi.append(poly_fn([[0, 0, k, -rad * float(cf)] for k, cf in enumerate(ip)]))
    n = max(len(t) for t in s); S = np.zeros((K, n))
    for i, t in enumerate(s): S[i, :len(t)] = t
    Phi = np.linalg.solve(R, S)
    Phi[:, 0] = 0.0
    pot_fn = [poly_fn([[0, 0, k, float(cf)] for k, cf in enumerate(Phi[i])]) for i in range(K)]
    oro_fn = poly_fn([[0, 0, k, float(cf)] for k, cf in enumerate(oro_p)])
    p = dict(a=rad, Omega=Om, dens=a['dens'], ref=a['ref'])
    sp = sw_spec(p, dict(psi=psi, chi=[Fn.const(0.0)] * K, pot=pot_fn, oro=oro_fn)); F = sp['fields']
    LM = n + 1
    vort = resolved(ctx, g, 'vorticity', nodal_of(F['zeta'], xyz), lmax=LM); vort[..., 0, 0] = 0.0
    pot = resolved(ctx, g, 'potential', nodal_of(pot_fn, xyz), lmax=LM); oro = resolved(ctx, g, 'orography', nodal_of(oro_fn, xyz), lmax=LM)
    eq = sw_eq(c, a['dens'], a['ref'], oro, Om, radius=rad)
    tot = sw_total(eq, vort, np.zeros_like(vort), pot)
    # named hypotheses of C05_sw_model_refines_spec / C05_sw_model_jet_steady_partial on this jet family (implementation's own operators)
    _sh = dyn.mods()['sh']; _jnp = dyn.mods()['jnp']
    div0 = np.zeros_like(vort)
    ctx.table_obligation('H_sw_pot_clip: the jet potential has no content in the clipped total wavenumber', bool(np.all(pot[..., -1] == 0)), None)
    cu, cv = _sh.get_cos_lat_vector(_jnp.asarray(vort), _jnp.asarray(div0), g)
    s2 = np.asarray(g.sec2_lat)
    nu, nv = to_nodal(g, np.asarray(cu)), to_nodal(g, np.asarray(cv))
    dback = np.asarray(g.clip_wavenumbers(g.div_cos_lat((g.to_modal(_jnp.asarray(nu * s2)), g.to_modal(_jnp.asarray(nv * s2))))), dtype=np.float64)
    usc = float(np.max(np.abs(nu * s2))) * g.total_wavenumbers / float(g.radius) + 1e-300
    ctx.table_obligation('H_sw_div_vel: clip(div_cos_lat(to_modal(u sec2), to_modal(v sec2))) returns the divergence of the jet state (0)',
                         float(np.max(np.abs(dback - div0))) <= 1e-10 * usc, {'error': float(np.max(np.abs(dback - div0))), 'scale': usc})
    dsc = max(float(np.max(np.abs(to_modal(g, nodal_of(f, xyz))))) for f in sp['mags']['divergence']) + 1e-300
    ctx.count('sw_balanced: K=%d deg=%d' % (K, max(len(w) for w in a['w'])))
    wc = (1 - z * z >= 0.02)      # the plugin's own polynomial evaluation is ill-conditioned next to the poles of tall grids
    ctx.table_obligation('balanced jet family satisfies the pointwise balance (spec divergence tendency = 0)',
                         float(np.max(np.abs(nodal_of(sp['divergence'], xyz) * wc))) <= 1e-9 * (maxabs(sp['mags']['divergence'], xyz) + 1e-300),
                         {'residual': float(np.max(np.abs(nodal_of(sp['divergence'], xyz) * wc))), 'scale': maxabs(sp['mags']['divergence'], xyz)})
    steady(ctx, 'constructed balanced zonal jet: divergence tendency = 0', tot['divergence'], dsc)
    steady(ctx, 'constructed balanced zonal jet: vorticity tendency = 0', tot['vorticity'], dsc)
    umax = maxabs(F['U'], xyz)
    steady(ctx, 'constructed balanced zonal jet: potential tendency = 0', tot['potential'],
           umax / rad * (float(np.max(np.abs(Phi))) + float(np.max(np.abs(a['ref'])))) * float(np.max(x * x + y * y) ** -1) + 1e-300)


def r_sw_barotropic(ctx, a):
    """exploration: the Galewsky barotropic-instability jet (C-infinity but not band-limited) without the bump;
    the residual is truncation error: bounded by a resolution-scaled tolerance and decreasing with resolution"""
    m = dyn.mods(); jnp = m['jnp']; sw = m['sw']
    from dinosaur import shallow_water_states as sws
    res = []
    for L in a['Ls']:
        g = dyn.grid(M=L, L=L + 1, I=3 * L + 1, J=(3 * L + 1) // 2 + 1)
        K = a['layers']; c = dyn.layer_coords(g, K)
        specs = sw.ShallowWaterSpecs.from_si(densities=np.linspace(1.0, 1.0 + 0.1 * (K - 1), K) * m['scales'].WATER_DENSITY)
        params = m['jax'].tree.map(specs.nondimensionalize, sws.get_default_parameters())
        lat = np.arcsin(np.asarray(g.nodal_mesh[1]))
        u = jnp.stack([sws.get_zonal_velocity(lat, params) for _ in range(K)])
        st = sws.multi_layer(u, specs.densities, c)
        ref = np.full(K, float(specs.nondimensionalize(sws.get_default_parameters().mean_height) * specs.g) / K)
        eq = sw.ShallowWaterEquations(c, specs, None, ref)
        tot = sw_total(eq, st.vorticity, st.divergence, st.potential)
        ex = eq.explicit_terms(st)
        term = float(np.max(np.abs(np.asarray(g.laplacian(st.potential))))) + 1e-300
        res.append(float(np.max(np.abs(tot['divergence'][..., :-1]))) / term)      # below the clipped top wavenumber
    ctx.count('sw_barotropic')
    ctx.oracle('exploration: barotropic-instability jet: divergence residual (truncation error) below the resolution-scaled bound 0.5*(21/L)^2',
               all(r <= 0.5 * (21.0 / L) ** 2 for r, L in zip(res, a['Ls'])), {'residuals': res, 'Ls': a['Ls']})
    if len(res) > 1:
        ctx.oracle('exploration: barotropic-instability jet: residual decreases with resolution', res[-1] < res[0], {'residuals': res})


def r_jw(ctx, a):
    """exploration: steady_state_jw is steady only approximately (transcendental in sigma and latitude): loose tolerance"""
    m = dyn.mods(); jnp = m['jnp']
    from dinosaur import primitive_equations_states as pes, xarray_utils
    L = a['L']; g = dyn.grid(M=L, L=L + 1, I=3 * L + 1, J=(3 * L + 1) // 2 + 1)
    K = a['K']; b = np.linspace(0, 1, K + 1)
    c = dyn.coords(g, b); specs = dyn.pe_specs()
    fn, aux = pes.steady_state_jw(c, specs)
    st = fn()
    oro = to_modal(g, np.asarray(aux[xarray_utils.OROGRAPHY])); tref = np.asarray(aux[xarray_utils.REF_TEMP_KEY])
    eq = dyn.pe_equation('dry', c, specs, tref, oro)
    tot, ex, im = pe_total(eq, 'dry', st.vorticity, st.divergence, st.temperature_variation, st.log_surface_pressure, {})
    term = float(np.max(np.abs(np.asarray(im.divergence)))) + 1e-300
    r = float(np.max(np.abs(tot['divergence'][..., :-1]))) / term
    ctx.count('jw')
    ctx.oracle('exploration: steady_state_jw approximately steady (divergence residual / implicit term <= loose 0.05)', r <= a['tol'], {'relative residual': r})
    zt = float(np.max(np.abs(np.asarray(st.vorticity))))
    ctx.oracle('exploration: steady_state_jw vorticity tendency small (<= loose 0.05 * |zeta| * 2 Omega)',
               float(np.max(np.abs(tot['vorticity']))) <= a['tol'] * zt * 2 * specs.angular_velocity, {'tend': float(np.max(np.abs(tot['vorticity']))), 'zeta': zt})



# ---------------------------------------------------------------------------
# Correspondence: extracted column model (Model/PrimEq.v) = extracted spec (Model/PrimEqSpec.v) = plugin evaluation
# ---------------------------------------------------------------------------
def r_column(ctx, a):
    K = a['K']; b = np.asarray(a['b'], dtype=np.float64)
    Kk, cen, th, al = sigma_tables(b); ls = np.log(cen)
    F = lambda v: [Fraction(float(t)) for t in np.ravel(v)]
    R, kap, Rv, Cpv = (Fraction(float(t)) for t in a['consts'])
    u, v, vort, div, Tp, q, Tref = (F(a[n]) for n in ('u', 'v', 'vort', 'div', 'Tp', 'q', 'tref'))
    T = [Tp[k] + Tref[k] for k in range(K)]
    gx, gy, s2, f, phis = (Fraction(float(t)) for t in a['node'])
    arrs = [ls, b, Tref, [R, kap, Rv, Cpv], u, v, vort, div, T, [gx, gy, s2, f, phis, 0], q]
    m0 = ctx.model.call(0, [K], arrs); m1 = ctx.model.call(1, [K], arrs)
    ctx.count('column: K=%d' % K)
    if m0 is None or m1 is None:
        ctx.exact('column model evaluates', 0, 1); return
    cut = lambda m, sizes: [m[sum(sizes[:i]):sum(sizes[:i + 1])] for i in range(len(sizes))]
    sd, vT, wp, lnp, vU, vV, phi = cut(m0, [K - 1, K, K, 1, K, K, K])
    sdf, tdry, tmoist, lnp1, pu, pv, kin = cut(m1, [K - 1, K, K, 1, K, K, K])
    S = lambda l: [str(t) for t in l]
    ctx.exact('model sigma_dot_full = spec sigma_dot (exact rationals)', S(sdf), S(sd))
    ctx.exact('model explicit+implicit temperature column terms = spec -sigma_dot dT/dsigma + kappa T omega/p (exact rationals)',
              S(tdry), S([vT[k] + kap * T[k] * wp[k] for k in range(K)]))
    fac = [(1 + (Rv / R - 1) * q[k]) / (1 + (Cpv / (R / kap) - 1) * q[k]) for k in range(K)]
    ctx.exact('model moist temperature column terms = spec with kappa Tv/(1+(c-1)q) omega/p (exact rationals)',
              S(tmoist), S([vT[k] + kap * T[k] * fac[k] * wp[k] for k in range(K)]))
    ctx.exact('model explicit+implicit surface pressure terms = spec -sum dsigma (div + u.grad lnps)', S(lnp1), S(lnp))
    Tv = [T[k] * (1 + (Rv / R - 1) * q[k]) for k in range(K)]
    ctx.exact('model effective momentum vector (u) = sec2 * spec', S(pu), S([s2 * (-v[k] * (vort[k] + f) - vU[k] + R * Tv[k] * gx) for k in range(K)]))
    ctx.exact('model effective momentum vector (v) = sec2 * spec', S(pv), S([s2 * (u[k] * (vort[k] + f) - vV[k] + R * Tv[k] * gy) for k in range(K)]))
    # the plugin's own floating evaluation of the spec's vertical discretisation (used by Oracle A) against the Coq spec
    uf, vf, df, Tf = (np.array([float(t) for t in l]) for l in (u, v, div, T))
    ug = float(s2) * (uf * float(gx) + vf * float(gy)); g = df + ug
    cum = np.cumsum(g * th); sdn = b[1:K] * cum[-1] - cum[:K - 1]
    def vadv_np(w, X):
        out = np.zeros(K)
        for n in range(K):
            if n + 1 < K: out[n] += w[n] * (X[n + 1] - X[n]) / (cen[n + 1] - cen[n])
            if n > 0: out[n] += w[n - 1] * (X[n] - X[n - 1]) / (cen[n] - cen[n - 1])
        return -0.5 * out
    wpn = ug - (al * cum + np.concatenate([[0.0], (al * cum)[:-1]])) / th
    G = geo_weights(b, float(R)); phin = float(phis) + G @ Tf
    sc = float(np.sum(np.abs(g * th))) + 1e-300
    ctx.corr('plugin spec: sigma_dot', sdn, sd, scale=sc)
    ctx.corr('plugin spec: -sigma_dot dT/dsigma', vadv_np(sdn, Tf), vT, scale=sc * float(np.max(np.abs(Tf)) + 1) / float(np.min(np.diff(cen))) if K > 1 else 1.0)
    ctx.corr('plugin spec: omega/p', wpn, wp, scale=(sc * float(np.max(np.abs(al))) / float(np.min(th)) + float(np.max(np.abs(ug))) + 1e-300))
    # the upwind option: implementation = Coq spec operator = the plugin's numpy form used by Oracle A (mixed-sign velocities)
    if K > 1:
        wq = F(a['wup']); wf_ = np.array([float(t) for t in wq])
        arrs_u = list(arrs); arrs_u[4] = wq + [0]
        mu_ = ctx.model.call(3, [K], arrs_u)
        usc = float(np.max(np.abs(wf_))) * float(np.max(np.abs(Tf)) + 1) / float(np.min(np.diff(cen))) + 1e-300
        ctx.corr('plugin spec: upwind -sigma_dot dX/dsigma', upwind_np(wf_, Tf, cen), mu_, scale=usc)
        m_ = dyn.mods(); sc_ = m_['sc']
        impl_u = np.asarray(sc_.upwind_vertical_advection(m_['jnp'].asarray(wf_.reshape(K - 1, 1, 1)), m_['jnp'].asarray(Tf.reshape(K, 1, 1)),
                                                          sc_.SigmaCoordinates(b)), dtype=np.float64).ravel()
        ctx.corr('sigma_coordinates.upwind_vertical_advection = spec upwind operator', impl_u, mu_, scale=usc)
        ctx.oracle('upwind correspondence exercises both signs of the velocity', bool(wf_.min() < 0 < wf_.max()) or K < 3, {'w': wf_.tolist()})
    ctx.corr('plugin spec: hydrostatic geopotential', phin, phi, scale=float(abs(float(phis)) + np.max(np.abs(G)) * np.sum(np.abs(Tf))) + 1e-300)


def r_geopotential(ctx, a):
    """model vs implementation for get_geopotential (incl. the literal 3.5449077 used for the constant mode)"""
    m = dyn.mods(); pe = m['pe']; jnp = m['jnp']
    g, x, y, z = grid_of(a['grid']); b = a['b']; K = len(b) - 1
    c = dyn.coords(g, b); rng = np.random.default_rng([a['seed'], 9])
    Tp = dyn.modal_field(rng, g, (K,), degree=3, amp=8.0); oro = dyn.modal_field(rng, g, (), degree=3, amp=0.1)
    tref = np.asarray(a['tref'], dtype=np.float64); R = float(a['R']); grav = float(a['g'])
    out = np.asarray(pe.get_geopotential(jnp.asarray(Tp), tref, jnp.asarray(oro), c.vertical, grav, R), dtype=np.float64)
    Kk, cen, th, al = sigma_tables(b); ls = np.log(cen)
    sc = float(abs(grav) * np.max(np.abs(oro)) + abs(R) * np.max(np.abs(ls)) * (np.sum(np.abs(Tp), axis=0).max() + 3.5449077 * np.sum(np.abs(tref)))) + 1e-300
    ctx.count('geopotential: K=%d' % K)
    for (mi, li) in a['coefs']:
        cst = Fraction(3.5449077) if (mi, li) == (0, 0) else Fraction(0)
        Tcol = [Fraction(float(Tp[k, mi, li])) + Fraction(float(tref[k])) for k in range(K)]
        arrs = [ls, b, [Fraction(float(t)) for t in tref], [R, 0, 0, 0], [0] * K, [0] * K, [0] * K, [0] * K, Tcol,
                [0, 0, 0, 0, Fraction(grav) * Fraction(float(oro[mi, li])), cst], [0] * K]
        ctx.corr('get_geopotential', out[:, mi, li], ctx.model.call(2, [K], arrs), scale=sc)
    # get_geopotential_with_moisture (nodal): phis + G . (T (1 + (Rv/R - 1) q)), a few node columns against the extracted spec
    Rv = 1.6 * R
    Tn_ = 250.0 + rng.integers(-80, 81, size=(K,) + tuple(g.nodal_shape)) / 4.0
    qn_ = rng.integers(0, 33, size=(K,) + tuple(g.nodal_shape)) / 2048.0
    on_ = rng.integers(-16, 17, size=tuple(g.nodal_shape)) / 64.0
    outm = np.asarray(pe.get_geopotential_with_moisture(jnp.asarray(Tn_), jnp.asarray(qn_), jnp.asarray(on_), c.vertical, grav, R, Rv), dtype=np.float64)
    scm = float(abs(grav) * np.max(np.abs(on_)) + abs(R) * np.max(np.abs(ls)) * 2 * np.sum(np.abs(Tn_), axis=0).max()) + 1e-300
    for (i_, j_) in [(0, 0), (3, 2), (int(g.nodal_shape[0]) - 1, int(g.nodal_shape[1]) - 1)]:
        Tcol = [Fraction(float(Tn_[k, i_, j_])) * (1 + (Fraction(Rv) / Fraction(R) - 1) * Fraction(float(qn_[k, i_, j_]))) for k in range(K)]
        arrs = [ls, b, [0] * K, [R, 0, 0, 0], [0] * K, [0] * K, [0] * K, [0] * K, Tcol,
                [0, 0, 0, 0, Fraction(grav) * Fraction(float(on_[i_, j_])), 0], [0] * K]
        ctx.corr('get_geopotential_with_moisture', outm[:, i_, j_], ctx.model.call(2, [K], arrs), scale=scm)
    # hydrostatic balance of the implementation's own geopotential: Phi_k - Phi_{k+1} = R (alpha-weights) (trapezoid in ln sigma)
    Tn = Tp.copy(); Tn[:, 0, 0] += 3.5449077 * tref
    d = out[:-1] - out[1:]
    if K > 1:
        want = R * 0.5 * (ls[1:] - ls[:-1])[:, None, None] * (Tn[:-1] + Tn[1:])
        ctx.oracle_close('geopotential thickness between layers = R * mean(T) * d ln(sigma)', d, want, scale=sc, tol_rel=1e-10)


# ---------------------------------------------------------------------------
# Forms of the input and state across calls (purity, batching, dtypes)
# ---------------------------------------------------------------------------
def _leaves_equal(ctx, what, t1, t2):
    l1 = dyn.tree_leaves(t1); l2 = dyn.tree_leaves(t2)
    ok = len(l1) == len(l2) and all(np.array_equal(np.asarray(u), np.asarray(v)) for u, v in zip(l1, l2))
    ctx.oracle(what, ok, None if ok else {'max diff': max([float(np.max(np.abs(np.asarray(u, dtype=np.float64) - np.asarray(v, dtype=np.float64)))) for u, v in zip(l1, l2)] + [0.0])})


def r_pe_forms(ctx, a):
    """the same equation object evaluated repeatedly / interleaved with other inputs and other configurations is bit-identical;
    jax.vmap over a batch of different states = per-state evaluation; integer-typed T_ref, read-only numpy inputs and
    (exactly representable) float32 inputs give the float64 result"""
    m = dyn.mods(); jax = m['jax']; jnp = m['jnp']; pe = m['pe']
    kind = a['kind']; K = len(a['b']) - 1; rng = np.random.default_rng([a['seed'], 11])
    g, x, y, z = grid_of('g9'); c = dyn.coords(g, a['b']); specs = dyn.pe_specs()
    amp = dict(vort=0.125, div=0.03125, T=2.0, lnps=0.0625, tr=0.015625)           # dyadic: exactly representable in float32
    tr = dyn.PE_TRACERS[kind] + ('tracer_0',)
    mk = lambda: dyn.pe_state(rng, c, 2, tr, with_time=(kind != 'dry'), amp=amp)
    A = mk(); B = mk()
    tref = np.asarray(a['tref'], dtype=np.float64); oro = dyn.modal_field(rng, g, (), 2, amp=0.0625)
    eq = dyn.pe_equation(kind, c, specs, tref, oro)
    jn = lambda t: jax.tree_util.tree_map(lambda q: jnp.asarray(q), t)
    e1 = eq.explicit_terms(jn(A)); i1 = eq.implicit_terms(jn(A))
    eB = eq.explicit_terms(jn(B))
    # another configuration differing in ONE field, used in between (other radius; other implementation class)
    for other in (dyn.coords(grid_of('g9', 2.0)[0], a['b']), dyn.coords(grid_of('g9f')[0], a['b'])):
        try:
            o_oro = np.zeros(other.horizontal.modal_shape)
            st_o = dyn.pe_state(rng, other, 2, tr, with_time=(kind != 'dry'), amp=amp)
            dyn.pe_equation(kind, other, specs, tref, o_oro).explicit_terms(jn(st_o))
        except Exception as e:
            ctx.oracle('other configuration evaluates', False, repr(e)[:200])
    e2 = eq.explicit_terms(jn(A)); i2 = eq.implicit_terms(jn(A))
    ctx.count('pe_forms:%s' % kind)
    _leaves_equal(ctx, f'{kind}: explicit_terms is pure (same object, same input, other inputs and configurations in between)', e1, e2)
    _leaves_equal(ctx, f'{kind}: implicit_terms is pure', i1, i2)
    # a second object built from the same data
    eqb = dyn.pe_equation(kind, c, specs, tref.copy(), oro.copy())
    _leaves_equal(ctx, f'{kind}: an equal equation object gives the same explicit terms', e1, eqb.explicit_terms(jn(A)))
    # vmap over a batch of two different states
    both = jax.tree_util.tree_map(lambda p, q: jnp.stack([jnp.asarray(p), jnp.asarray(q)]), A, B)
    ev = jax.vmap(eq.explicit_terms)(both); iv = jax.vmap(eq.implicit_terms)(both)
    for n in ('vorticity', 'divergence', 'temperature_variation', 'log_surface_pressure'):
        sc = float(np.max(np.abs(np.asarray(getattr(e1, n))))) + float(np.max(np.abs(np.asarray(getattr(eB, n))))) + 1e-300
        ctx.oracle_close(f'{kind}: vmap over two different states = per-state evaluation ({n})', np.asarray(getattr(ev, n)),
                         np.stack([np.asarray(getattr(e1, n)), np.asarray(getattr(eB, n))]), scale=sc, tol_rel=1e-13)
    ctx.oracle_close(f'{kind}: vmap of implicit_terms', np.asarray(iv.divergence)[0], np.asarray(i1.divergence),
                     scale=float(np.max(np.abs(np.asarray(i1.divergence)))) + 1e-300, tol_rel=1e-13)
    # integer-typed reference temperature (values are whole numbers), read-only numpy inputs
    eqi = getattr(pe, dyn.PE_CLASSES[kind])(tref.astype(np.int64), jnp.asarray(oro), c, specs)
    _leaves_equal(ctx, f'{kind}: integer-typed T_ref = float T_ref (explicit)', e1, eqi.explicit_terms(jn(A)))
    _leaves_equal(ctx, f'{kind}: integer-typed T_ref = float T_ref (implicit)', i1, eqi.implicit_terms(jn(A)))
    def ro(q):
        q = np.array(q, dtype=np.float64); q.setflags(write=False); return q
    Aro = jax.tree_util.tree_map(ro, A)
    _leaves_equal(ctx, f'{kind}: read-only numpy inputs', e1, eq.explicit_terms(Aro))
    # transformation contexts: jit of the whole call, eval_shape, and for the linear implicit operator jvp = operator applied to the
    # tangent, vjp finite and adjoint-consistent
    if a.get('jit', True):
        ej = jax.jit(eq.explicit_terms)(jn(A)) if a.get('jit', 'both') == 'both' else e1; ij = jax.jit(eq.implicit_terms)(jn(A))
        for n in ('vorticity', 'divergence', 'temperature_variation', 'log_surface_pressure'):
            ctx.oracle_close(f'{kind}: jax.jit(explicit_terms) = eager ({n})', np.asarray(getattr(ej, n)), np.asarray(getattr(e1, n)),
                             scale=float(np.max(np.abs(np.asarray(getattr(e1, n))))) + 1e-300, tol_rel=1e-12)
            ctx.oracle_close(f'{kind}: jax.jit(implicit_terms) = eager ({n})', np.asarray(getattr(ij, n)), np.asarray(getattr(i1, n)),
                             scale=float(np.max(np.abs(np.asarray(getattr(i1, n))))) + 1e-300, tol_rel=1e-12)
    shp = jax.eval_shape(eq.explicit_terms, jn(A))
    ctx.exact(f'{kind}: eval_shape(explicit_terms) has the shapes of the eager result',
              [list(t.shape) for t in dyn.tree_leaves(shp)], [list(np.shape(t)) for t in dyn.tree_leaves(e1)])
    Aj = jn(A); Bj = jn(B)
    pim, tim = jax.jvp(eq.implicit_terms, (Aj,), (Bj,))
    iB = eq.implicit_terms(jn(B))
    for n in ('divergence', 'temperature_variation', 'log_surface_pressure'):
        ctx.oracle_close(f'{kind}: implicit_terms is linear: jvp = operator applied to the tangent ({n})', np.asarray(getattr(tim, n)), np.asarray(getattr(iB, n)),
                         scale=float(np.max(np.abs(np.asarray(getattr(iB, n))))) + 1e-300, tol_rel=1e-12)
    _, vjp = jax.vjp(eq.implicit_terms, Aj)
    (ct,) = vjp(iB)
    ctx.oracle(f'{kind}: reverse mode of implicit_terms is finite', dyn.tree_all_finite(ct))
    lhs = dyn.tree_vdot(tim, iB); rhs = dyn.tree_vdot(Bj, ct)
    ctx.oracle(f'{kind}: implicit_terms <J v, w> = <v, J^T w>', abs(lhs - rhs) <= 1e-10 * (abs(lhs) + abs(rhs) + 1e-300), {'lhs': lhs, 'rhs': rhs})
    # float32 copies of exactly representable coefficients: every float64 result must be reproduced to float32 accuracy at least,
    # and exactly where the computation is carried out in float64 (checked on the unchanged tree: the transforms promote)
    A32 = jax.tree_util.tree_map(lambda q: jnp.asarray(np.asarray(q, dtype=np.float32)) if np.ndim(q) else q, A)
    e32 = eq.explicit_terms(A32)
    for n in ('vorticity', 'divergence', 'temperature_variation', 'log_surface_pressure'):
        ctx.oracle_close(f'{kind}: float32 inputs (dyadic coefficients) give the float64 explicit tendency ({n})', np.asarray(getattr(e32, n), dtype=np.float64),
                         np.asarray(getattr(e1, n)), scale=float(np.max(np.abs(np.asarray(getattr(e1, n))))) + 1e-300, tol_rel=a.get('f32_tol', 1e-12))


# ---------------------------------------------------------------------------
# Structured states: at rest except ONE coefficient at the highest retained / the clipped top total wavenumber
# ---------------------------------------------------------------------------
def r_linear_top(ctx, a):
    """rest + one coefficient column at total wavenumber l in {L-2 (highest retained), L-1 (clipped in the explicit part)}:
    all non-linear products vanish, the tendency is given by closed formulas computed here in numpy
    (eigenvalue -l(l+1)/a^2, hydrostatic weights, -H.div column formula)"""
    m = dyn.mods(); jnp = m['jnp']
    kind = a['kind']; b = a['b']; K = len(b) - 1
    g, x, y, z = grid_of(a['grid'], a.get('radius')); c = dyn.coords(g, b); specs = specs_of(a['consts'])
    L = g.total_wavenumbers; rad = float(g.radius); R = specs.R
    tref = np.asarray(a['tref'], dtype=np.float64)
    Kk, cen, th, al = sigma_tables(b); G = geo_weights(b, R)
    mm, ll = g.modal_mesh; mask = np.asarray(g.mask)
    ctx.count('linear_top:%s %s' % (kind, a['grid']))
    tracers0 = {n: np.zeros((K,) + tuple(g.modal_shape)) for n in dyn.PE_TRACERS[kind]}
    for l in (L - 2, L - 1):
        cand = np.argwhere((np.asarray(ll) == l) & mask & (np.abs(np.asarray(mm)) == a['m']))
        mi, li = (int(t) for t in cand[a['pick'] % len(cand)])
        eig = -l * (l + 1) / rad ** 2
        for field in ('T', 'lnps', 'div', 'oro'):
            zero = np.zeros((K,) + tuple(g.modal_shape)); col = np.asarray(a['col'], dtype=np.float64)
            vort = zero.copy(); div = zero.copy(); Tp = zero.copy(); lnps = np.zeros((1,) + tuple(g.modal_shape)); oro = np.zeros(tuple(g.modal_shape))
            want = dict(vorticity=zero.copy(), divergence=zero.copy(), temperature_variation=zero.copy(), log_surface_pressure=lnps.copy())
            if field == 'T':
                Tp[:, mi, li] = col; want['divergence'][:, mi, li] = -eig * (G @ col)
            elif field == 'lnps':
                lnps[0, mi, li] = col[0]; want['divergence'][:, mi, li] = -eig * R * tref * col[0]
            elif field == 'oro':
                oro[mi, li] = col[0]
                if l < L - 1: want['divergence'][:, mi, li] = -eig * specs.g * col[0]     # the explicit orographic term is clipped at L-1
            else:
                d = col * 0.01; div[:, mi, li] = d
                cum = np.cumsum(d * th); sdD = np.cumsum(th)[:K - 1] * cum[-1] - cum[:K - 1]
                gp = (al * cum + np.concatenate([[0.0], (al * cum)[:-1]])) / th
                want['temperature_variation'][:, mi, li] = centered_np(sdD, tref, cen) - specs.kappa * tref * gp
                want['log_surface_pressure'][0, mi, li] = -cum[-1]
            eq = dyn.pe_equation(kind, c, specs, tref, oro)
            tot, ex, im = pe_total(eq, kind, vort, div, Tp, lnps, tracers0)
            sc = max(float(np.max(np.abs(v))) for v in want.values()) + (abs(eig) * abs(float(col[0])) * 1e-6 if field != 'div' else 1e-300) + 1e-300
            for n in (('temperature_variation', 'log_surface_pressure') if field == 'div' else tuple(want)):      # (div: KE and f make the rest non-linear)
                ctx.oracle_close(f'{kind}: rest + one {field} coefficient at l = L{l - L:+d}: {n} tendency = closed linear formula',
                                 tot[n], want[n], scale=sc, tol_rel=1e-10)
    # shallow water: potential and divergence columns
    Ks = a['sw_dens'] and len(a['sw_dens'])
    if Ks:
        cs = dyn.layer_coords(g, Ks); dens = np.asarray(a['sw_dens'], dtype=np.float64); ref = np.asarray(a['sw_ref'], dtype=np.float64)
        Rm = np.minimum(dens[None, :] / dens[:, None], 1.0)
        eqs = sw_eq(cs, dens, ref, None, 0.0, radius=rad)
        for l in (L - 2, L - 1):
            cand = np.argwhere((np.asarray(ll) == l) & mask & (np.abs(np.asarray(mm)) == a['m']))
            mi, li = (int(t) for t in cand[a['pick'] % len(cand)]); eig = -l * (l + 1) / rad ** 2
            zero = np.zeros((Ks,) + tuple(g.modal_shape)); col = np.asarray(a['col'], dtype=np.float64)[:Ks]
            pot = zero.copy(); pot[:, mi, li] = col
            tot = sw_total(eqs, zero, zero, pot)
            want = zero.copy(); want[:, mi, li] = -eig * ((Rm @ col) if l < L - 1 else col)      # at L-1 only the implicit -lap(Phi_i) survives
            ctx.oracle_close(f'shallow water: rest + one potential coefficient at l = L{l - L:+d}: divergence tendency', tot['divergence'], want,
                             scale=float(np.max(np.abs(want))) + 1e-300, tol_rel=1e-10)
            dv = zero.copy(); dv[:, mi, li] = col * 0.01
            tot = sw_total(eqs, zero, dv, zero)
            want = zero.copy(); want[:, mi, li] = -ref * col * 0.01
            ctx.oracle_close(f'shallow water: rest + one divergence coefficient at l = L{l - L:+d} (no rotation): potential tendency', tot['potential'], want,
                             scale=float(np.max(np.abs(want))) + 1e-300, tol_rel=1e-10)
            ctx.oracle_close(f'shallow water: ... vorticity tendency = 0', tot['vorticity'], zero, scale=float(np.max(np.abs(want))) + 1e-300, tol_rel=1e-10)


# ---------------------------------------------------------------------------
# case generation
# ---------------------------------------------------------------------------
def _consts(rng, r):
    if r % 2 == 0: return None, None
    rad = float([1.0, 1.25, 2.0, 0.75][int(rng.integers(0, 4))]); om = float([0.5, 0.7, 1.0, 0.3][int(rng.integers(0, 4))])
    R = float(rng.integers(1, 9)) / 8; kap = float([0.25, 0.3, 0.2857142857142857][int(rng.integers(0, 3))])
    return [rad, om, float(rng.integers(8, 81)) / 8, R, R * float(rng.integers(12, 20)) / 10, R / kap * float(rng.integers(15, 22)) / 10, kap], rad


def generate(ctx):
    rng = ctx.rng; quick = ctx.tier == 'quick'
    lev = lambda K: util.uneven_boundaries(rng, K, 4).tolist()
    prof = lambda K: (250.0 + rng.integers(-120, 121, size=K) / 4.0).tolist()
    prof_nd = lambda K: (250.1 + rng.integers(-300, 301, size=K) / 7.0).tolist()                      # non-dyadic temperatures
    def lev_special(K, how):
        """accepted level sets near the guards: nearly equidistant, ends only close to 0 / 1, a very thin layer"""
        k = np.arange(K + 1, dtype=np.float64)
        if how == 'round7': b = np.round(k / K, 7)
        elif how == 'jitter22': b = k / K + np.where((k > 0) & (k < K), (-1.0) ** k * 2.0 ** -22, 0.0)
        elif how == 'f32acc': b = np.cumsum(np.concatenate([[np.float32(0)], np.full(K, np.float32(1.0 / K))]), dtype=np.float32).astype(np.float64); b[-1] = min(b[-1], 1.000001)
        elif how == 'top8e-9': b = np.asarray(lev(K)); b[0] = 8e-9
        elif how == 'bot1+1e-7': b = np.asarray(lev(K)); b[-1] = 1.0000001
        elif how == 'bot1-2e-6': b = np.asarray(lev(K)); b[-1] = 0.999998
        elif how == 'thin30':
            b = np.asarray(lev(K)); j = max(1, K // 2); b[j] = b[j - 1] + 2.0 ** -30 if K > 1 else b[j]
        else: raise ValueError(how)
        return [float(t) for t in b]
    amp = dict(psi=0.05, chi=0.01, T=2.0, lnps=0.05, oro=0.05)
    # Oracle A
    plan = [('dry', 3, 'g9'), ('moist', 3, 'g9'), ('cloud', 2, 'g9'), ('dry', 1, 'g9')]
    if not quick:
        plan += [(k, K, gname) for k in ('dry', 'time', 'moist', 'cloud') for K in (1, 2, 3, 4) for gname in ('g9',)]
        plan += [('dry', 3, 'g12'), ('moist', 2, 'g12'), ('dry', 3, 'g9f'), ('moist', 3, 'g9f'), ('dry', 2, 'g7')]
    for r, (kind, K, gname) in enumerate(plan):
        consts, rad = _consts(rng, r)
        deg = 2 if gname != 'g7' else 1
        yield 'pe_pointwise', dict(kind=kind, consts=consts, radius=rad, b=lev(K), grid=gname, tref=prof(K), degree=deg,
                                   polys=_pe_polys(rng, K, kind, deg, amp))
    # configuration options: upwind vertical advection (uniform and height-varying T_ref), dense / matrix-free vertical products
    oplan = [('dry', 3, 'upwind', None, 0), ('moist', 3, 'upwind', None, 1), ('dry', 3, 'centered', 'sparse', 0), ('moist', 4, 'centered', 'sparse', 0),
             ('dry', 3, 'centered', 'dense', 0), ('cloud', 2, 'upwind', 'sparse', 0)]
    if not quick:
        oplan += [(k, K, v, mm, u) for k in ('dry', 'time', 'moist', 'cloud') for K in (2, 3, 5)
                  for (v, mm, u) in (('upwind', None, 0), ('upwind', 'sparse', 1), ('centered', 'sparse', 0), ('centered', 'dense', 0))]
    for r, (kind, K, vadv_, mm, uni) in enumerate(oplan):
        consts, rad = _consts(rng, r + 1)
        bb = lev(K)
        while K > 1 and abs((bb[1] - bb[0]) - (bb[-1] - bb[-2])) < 1e-3: bb = lev(K)      # top and bottom thickness differ
        tr = [float(rng.integers(220, 300))] * K if uni else prof(K)
        yield 'pe_pointwise', dict(kind=kind, consts=consts, radius=rad, b=bb, grid='g9', tref=tr, degree=2, vadv=vadv_, matmul=mm,
                                   polys=_pe_polys(rng, K, kind, 2, dict(amp, chi=0.03)))
    # more options, structured data and layouts (self-review list): include_vertical_advection=False (+ sparse), identically zero
    # humidity in a moist class, no rotation, integer-typed T_ref with a plateau, Fast implementation / padded layout / longitude
    # offset / M < L - 1 / wide grid
    splan = [('dry', 3, 'g9', dict(vadv='none', matmul='sparse')), ('moist', 3, 'g9', dict(q_zero=1)), ('dry', 2, 'g9', dict(omega0=1)),
             ('dry', 3, 'g9', dict(tref_int=1)), ('time', 3, 'g9f', {})]
    if not quick:
        splan += [(k, K, 'g9', dict(vadv='none')) for k in ('time', 'moist', 'cloud') for K in (2, 4)]
        splan += [(k, 3, gn, {}) for k in ('dry', 'moist') for gn in ('g9p', 'g9o', 'gm6', 'gw')]
        splan += [('cloud', 3, 'g9p', dict(vadv='upwind', matmul='sparse')), ('moist', 2, 'g9f', dict(vadv='upwind')), ('cloud', 3, 'g9', dict(q_zero=1)),
                  ('moist', 3, 'g9', dict(tref_int=1, matmul='sparse')), ('moist', 3, 'g9o', dict(omega0=1, vadv='none'))]
    for r, (kind, K, gname, extra) in enumerate(splan):
        consts, rad = _consts(rng, r)
        if extra.get('omega0'): consts = [1.0, 0.0, 4.0, 0.5, 0.8, 3.0, 0.25]; rad = 1.0
        tr = prof(K)
        if extra.get('tref_int'): tr = [250.0] * (K - 1) + [270.0]                      # whole numbers, plateau, equal leading values
        args = dict(kind=kind, consts=consts, radius=rad, b=lev(K), grid=gname, tref=tr, degree=2, polys=_pe_polys(rng, K, kind, 2, amp))
        args.update({k: v for k, v in extra.items() if k != 'omega0'})
        yield 'pe_pointwise', args
    # fourth-wave classes: near-coincident level sets and reference profiles, thin layers, scaled radii, non-dyadic constants
    wplan = [('dry', 3, 'round7', {}), ('dry', 3, 'top8e-9', {}), ('moist', 3, 'bot1+1e-7', dict(matmul='sparse')),
             ('dry', 3, 'thin30', {}), ('dry', 3, 'near_tref', {}), ('moist', 2, 'radius', dict(rad=2.0 ** -20))]
    if not quick:
        wplan += [('moist', 4, 'jitter22', {}), ('dry', 2, 'radius', dict(rad=2.0 ** 20))]
        wplan += [(k, K, h, e) for k in ('time', 'cloud') for (K, h, e) in ((4, 'round7', dict(vadv='upwind')), (3, 'f32acc', {}), (3, 'bot1-2e-6', {}), (4, 'thin30', dict(matmul='sparse')),
                                                                             (3, 'top8e-9', dict(vadv='upwind', matmul='sparse')), (3, 'near_tref', dict(vadv='upwind')), (5, 'jitter22', dict(matmul='sparse')))]
    for r, (kind, K, how, extra) in enumerate(wplan):
        consts, rad = _consts(rng, 1)                                  # always the non-dyadic random constants
        bb = lev(K) if how in ('near_tref', 'radius') else lev_special(K, how)
        tr = prof_nd(K)
        if how == 'near_tref': tr = [tr[0] * (1 + j * [1e-12, 1e-7, 3e-9][j % 3]) for j in range(K)]     # nearly equal, not equal
        if how == 'radius': consts = list(consts); consts[0] = extra['rad']; rad = extra['rad']
        args = dict(kind=kind, consts=consts, radius=rad, b=bb, grid='g9', tref=tr, degree=2, polys=_pe_polys(rng, K, kind, 2, amp))
        args.update({k: v for k, v in extra.items() if k != 'rad'})
        yield 'pe_pointwise', args
    for r, (kind, K, how) in enumerate([('moist', 3, 'top8e-9'), ('dry', 130, 'jitter22')] if quick else
                                       [('dry', 3, 'round7'), ('moist', 3, 'top8e-9'), ('dry', 130, 'jitter22'), ('cloud', 4, 'bot1+1e-7'), ('moist', 3, 'thin30'), ('time', 260, 'f32acc')]):
        consts, rad = _consts(rng, 1)
        yield 'pe_rest', dict(kind=kind, consts=consts, radius=rad, b=lev_special(K, how), grid='g9', seed=int(rng.integers(1 << 30)), oro_amp=0.02,
                              T0=250.1 + float(rng.integers(0, 300)) / 7, q0=float(rng.integers(0, 30)) / 1000, c=float(rng.integers(-40, 120)) / 7, tref=None)
    for r, (kind, K, how) in enumerate([('dry', 130, 'jitter22')] if quick else
                                       [('dry', 130, 'jitter22'), ('moist', 3, 'thin30'), ('dry', 4, 'top8e-9'), ('time', 520, 'round7')]):
        consts, rad = _consts(rng, 1)
        yield 'linear_top', dict(kind=kind, consts=consts, radius=rad, grid='g9', b=lev_special(K, how), tref=prof_nd(K), m=int(rng.integers(0, 4)), pick=int(rng.integers(0, 4)),
                                 col=(rng.integers(1, 17, size=K) / 7.0).tolist(), sw_dens=None, sw_ref=None)
    # tall grids (hundreds of latitudes, minimal longitudes) for the zonal balanced families
    for r, (gname, kind) in enumerate([('gt300', 'moist')] if quick else [('gt300', 'moist'), ('gt520', 'dry'), ('gt300', 'cloud')]):
        consts, rad = _consts(rng, 1); K = 3
        sp = specs_of(consts); U = (rng.integers(-24, 25, size=K) / 100.0).tolist()
        need = -(np.asarray(U) ** 2 / 2 + (rad or 1.0) * sp.angular_velocity * np.asarray(U))
        yield 'pe_solid_body', dict(kind=kind, consts=consts, radius=rad, b=lev(K), grid=gname, U=U, Tbar=prof_nd(K), tref=prof_nd(K), mode='general',
                                    beta=0.0, gamma=float(np.mean(need)) / sp.g * 1.1, c=float(rng.integers(-16, 90)) / 7, q0=float(rng.integers(0, 30)) / 1000)
        if quick: continue
        yield 'sw_states', dict(fn='multi_layer', grid=gname, dens=[1.0, 1.3], ref=[0.7, 0.9], w=[(rng.integers(-16, 17, size=3) / 60.0).tolist() for _ in range(2)])
        yield 'sw_balanced', dict(grid=gname, radius=1.3, omega=0.7, dens=[1.0, 1.3], ref=[0.7, 0.9], w=[(rng.integers(-16, 17, size=3) / 60.0).tolist() for _ in range(2)],
                                  oro=(rng.integers(-8, 9, size=3) / 60.0).tolist())
    for kind in (['dry'] if quick else ['dry', 'time', 'moist', 'cloud']):
        yield 'pe_forms', dict(kind=kind, jit='implicit' if quick else 'both', b=lev(3), tref=[float(t) for t in rng.integers(220, 300, size=3)], seed=int(rng.integers(1 << 30)))
    for r, (kind, gname) in enumerate([('dry', 'g9')] if quick else [('dry', 'g9'), ('moist', 'g9'), ('time', 'g9f'), ('cloud', 'g9p'), ('dry', 'gm6')]):
        consts, rad = _consts(rng, r + 1)
        yield 'linear_top', dict(kind=kind, consts=consts, radius=rad, grid=gname, b=lev(3), tref=prof(3), m=int(rng.integers(0, 4)), pick=int(rng.integers(0, 4)),
                                 col=(rng.integers(1, 17, size=3) / 8.0).tolist(), sw_dens=[1.0, 1.25, 1.75], sw_ref=[1.0, 0.5, 0.75])
    for r, K in enumerate([1, 3] if quick else [1, 2, 3, 4, 2, 3]):
        dens = np.cumsum(np.concatenate([[1.0], rng.integers(1, 5, size=K - 1) / 8.0])).tolist()
        polys = dict(psi=[rand_poly(rng, 2, amp=0.1) for _ in range(K)], chi=[rand_poly(rng, 2, amp=0.02) for _ in range(K)],
                     pot=[rand_poly(rng, 2, amp=0.1) for _ in range(K)], oro=rand_poly(rng, 2, amp=0.05))
        yield 'sw_pointwise', dict(grid='g9' if r < 4 else 'g12', radius=[None, 1.25, 2.0][r % 3], dens=dens, ref=(rng.integers(2, 10, size=K) / 8.0).tolist(),
                                   omega=[0.5, 0.8, 1.0][r % 3], polys=polys, with_oro=bool(r != 1))
    # Oracle B: rest states
    plan = [('dry', 3, 0), ('moist', 3, 0), ('cloud', 2, 1), ('dry', 3, 1), ('moist', 1, 0)]
    if not quick: plan += [(k, K, s) for k in ('dry', 'time', 'moist', 'cloud') for K in (1, 2, 3, 5) for s in (0, 1)]
    for r, (kind, K, split) in enumerate(plan):
        consts, rad = _consts(rng, r + 1)
        yield 'pe_rest', dict(kind=kind, consts=consts, radius=rad, b=lev(K), grid='g9' if r % 3 else 'g12' if not quick else 'g9', seed=int(rng.integers(1 << 30)),
                              oro_amp=[0.02, 0.2, 0.0][r % 3] if r else 0.02, T0=float(rng.integers(200, 320)), q0=float(rng.integers(0, 30)) / 1000,
                              c=float(rng.integers(-40, 120)) / 8, tref=prof(K) if split else None)
    yield 'pe_rest_states', dict(b=lev(3), grid='g9', height_m=0, T0=288., seed=int(rng.integers(1 << 30)), shape=[])
    yield 'pe_rest_states', dict(b=lev(2), grid='g9', height_m=0, T0=float(rng.integers(230, 300)), p0=float(rng.integers(6, 11)) * 1e4, seed=int(rng.integers(1 << 30)), shape=[])
    yield 'pe_rest_states', dict(b=lev(3), grid='g9', height_m=float(rng.integers(2, 16)) * 100, T0=288., seed=int(rng.integers(1 << 30)), shape=rand_poly(rng, 2))
    # Oracle B: solid-body rotation in gradient-wind balance
    plan = [('dry', 3, 'general'), ('moist', 3, 'general'), ('moist', 2, 'isothermal'), ('dry', 3, 'barotropic'), ('cloud', 3, 'general'), ('dry', 3, 'general')]
    if not quick: plan += [(k, K, md) for k in ('dry', 'time', 'moist', 'cloud') for K in (1, 2, 3, 5) for md in ('general', 'isothermal', 'barotropic')]
    for r, (kind, K, mode) in enumerate(plan):
        consts, rad = _consts(rng, r)
        sp = specs_of(consts); radius = rad or 1.0
        U = (rng.integers(-24, 25, size=K) / 100.0).tolist() if mode == 'general' else [float(rng.integers(-24, 25)) / 100.0 or 0.07] * K
        need = -(np.asarray(U) ** 2 / 2 + radius * sp.angular_velocity * np.asarray(U))
        gam = float(np.mean(need)) / sp.g * (1.1 if mode == 'general' else 1.0)
        yield 'pe_solid_body', dict(kind=kind, consts=consts, radius=rad, b=lev(K), grid='gt' if r == 5 else 'g9', U=U,
                                    Tbar=prof(K) if mode != 'isothermal' else [float(rng.integers(220, 300))] * K, tref=prof(K),
                                    mode='isothermal' if mode == 'isothermal' else 'general', beta=float(rng.integers(-8, 9)) / 64,
                                    gamma=gam, c=float(rng.integers(-16, 90)) / 8, q0=float(rng.integers(0, 30)) / 1000)
    # Oracle B: shallow-water balanced jets
    jet = lambda d: (rng.integers(-16, 17, size=d + 1) / 64.0).tolist()
    plan = [('one_layer', 1, 0), ('one_layer', 1, 3), ('multi_layer', 2, 2), ('multi_layer', 3, 3), ('multi_layer', 1, 2)]
    if not quick: plan += [('one_layer', 1, d) for d in (1, 2, 4)] + [('multi_layer', K, d) for K in (1, 2, 3, 4) for d in (0, 2, 4)] + [('one_layer', 1, -2), ('multi_layer', 2, -2)]
    for fnm, K, d in plan:
        tall = d < 0; d = abs(d)
        dens = np.cumsum(np.concatenate([[1.0], rng.integers(1, 5, size=K - 1) / 8.0])).tolist()
        yield 'sw_states', dict(fn=fnm, grid='gt' if tall else 'g9' if d < 3 else 'g12', dens=dens, ref=(rng.integers(2, 10, size=K) / 8.0).tolist(), w=[jet(d) for _ in range(K)])
    for r, (K, d) in enumerate([(1, 2), (3, 3)] if quick else [(1, 0), (1, 2), (2, 3), (3, 3), (4, 2), (3, 4)]):
        dens = np.cumsum(np.concatenate([[1.0], rng.integers(1, 5, size=K - 1) / 8.0])).tolist()
        yield 'sw_balanced', dict(grid='g9' if d < 3 else 'g12', radius=[1.25, None, 2.0][r % 3], omega=[0.9, 0.5, 0.25][r % 3], dens=dens,
                                  ref=(rng.integers(2, 10, size=K) / 8.0).tolist(), w=[jet(d) for _ in range(K)], oro=(rng.integers(-8, 9, size=3) / 64.0).tolist())
    yield 'sw_barotropic', dict(Ls=[21, 31] if quick else [21, 31, 42], layers=2)
    yield 'jw', dict(L=21, K=8, tol=0.05)
    if not quick: yield 'jw', dict(L=31, K=12, tol=0.05)
    # correspondence
    for K in ([1, 2, 3, 5] if quick else [1, 2, 3, 4, 5, 8, 12]):
        for r in range(2 if quick else 4):
            sr = lambda n, lo=-16, hi=16, den=8: (rng.integers(lo, hi + 1, size=n) / den).tolist()
            yield 'column', dict(K=K, b=lev(K), consts=[0.25 * int(rng.integers(1, 9)), 0.25, 0.125 * int(rng.integers(9, 17)), 0.25 * int(rng.integers(20, 40))],
                                 u=sr(K), v=sr(K), vort=sr(K), div=sr(K), Tp=sr(K, -40, 40, 4), q=sr(K, 0, 8, 256), tref=sr(K, 800, 1200, 4),
                                 node=sr(5, -12, 12, 8)[:2] + [float(rng.integers(8, 40)) / 8] + sr(2, -12, 12, 8),
                                 wup=[(-1) ** j * float(rng.integers(1, 17)) / 8 for j in range(max(K - 1, 0))])
    # the executed whole-state model at rest (tiny real grids: the exact model is affordable)
    for r in range(3 if quick else 8):
        consts, rad = _consts(rng, r + 1)
        K = 2 + r % 2
        yield 'whole_state_rest', dict(grid='t4' if r % 4 != 3 else 't3', consts=consts, radius=rad, b=lev(K), seed=int(rng.integers(1 << 30)),
                                       oro_amp=float([0.02, 0.05, 0.01][r % 3]) * (1000.0 if consts is None else 1.0), c=float(rng.integers(-8, 9)) / 4,
                                       T0=float(rng.integers(200, 320)) + 0.25 * int(rng.integers(0, 4)), top=int(r % 3 == 1))
    for r in range(1 if quick else 3):
        consts, rad = _consts(rng, r + 1)
        yield 'whole_state_rest', dict(kind='moist', grid='t3', consts=consts, radius=rad, b=lev(2), seed=int(rng.integers(1 << 30)),
                                       oro_amp=0.02 * (1000.0 if consts is None else 1.0), c=float(rng.integers(-8, 9)) / 4,
                                       T0=float(rng.integers(200, 320)) + 0.25 * int(rng.integers(0, 4)), top=int(r % 2 == 0),
                                       q0=float(rng.integers(1, 16)) / 512)
    for K in ([1, 3] if quick else [1, 2, 3, 5, 8]):
        yield 'geopotential', dict(grid='g7', b=lev(K), tref=prof(K), R=[287.0, 1.0, 0.3][K % 3], g=[9.80616, 1.0, 72.0][K % 3],
                                   seed=int(rng.integers(1 << 30)), coefs=[[0, 0], [0, 2], [3, 2], [2, 1]])


RUNNERS = {'pe_pointwise': r_pe_pointwise, 'sw_pointwise': r_sw_pointwise, 'pe_rest': r_pe_rest, 'pe_rest_states': r_pe_rest_states,
           'pe_solid_body': r_pe_solid_body, 'sw_states': r_sw_states, 'sw_balanced': r_sw_balanced, 'sw_barotropic': r_sw_barotropic,
           'jw': r_jw, 'column': r_column, 'geopotential': r_geopotential,
           'pe_forms': r_pe_forms, 'linear_top': r_linear_top, 'whole_state_rest': r_whole_state_rest}
