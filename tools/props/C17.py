"""C17 - vertical interpolation and the simple horizontal regridders:
correspondence of Model/Interp.v with dinosaur.vertical_interpolation,
horizontal_interpolation.{Bilinear,Nearest}Regridder and
primitive_equations._vertical_interp, and the property's own clauses evaluated
on the implementation."""
import numpy as np
from fractions import Fraction
from harness import util

THEOREMS = ['C17_interp_at_nodes', 'C17_interp_ref_on_segment', 'C17_interp_affine_exact',
            'C17_interp_between_neighbours', 'C17_interp_between_neighbours_R', 'C17_dot_interp_eq_ref',
            'C17_linear_extrap_formula', 'C17_lin_extrap_affine_exact', 'C17_safe_extrap_char',
            'C17_safe_extrap_window', 'C17_safe_extrap_affine_exact', 'C17_roundtrip_partial',
            'C17_roundtrip_defined', 'C17_roundtrip_outside', 'C17_surface_pressure_on_segment',
            'C17_surface_pressure_is_intercept', 'C17_bilinear_constants', 'C17_bilinear_identity_same_grid',
            'C17_nearest_constants', 'C17_nearest_identity_same_grid', 'C17_dot_interp_eq_ref_R',
            'C17_safe_extrap_window_R', 'C17_hyps_satisfiable', 'C17_model_is_source',
            'C17_gen_interp_complete']
LEVEL = 'proof'
LEVEL_TEXT = ('machine-checked theorems (Coq) for every ordered field (hence the reals), every strictly increasing '
              'node list of length >= 2, all data and ALL queries: value at nodes, chord on every closed cell, affine '
              'exactness, boundedness by neighbours, matrix path = default path, linear extrapolation formula, complete '
              'characterisation of safe extrapolation (closed window / missing beyond), p->sigma->p round trip, surface '
              'pressure intercept, bilinear/nearest constants and identity; the Gallina model is executed (extraction) '
              'against the implementation, including _dot_interp called directly')
LEVEL_NOTE = ('theorems are about the Gallina model Model/Interp.v; jnp.interp is modelled by its documented semantics '
              '(count of nodes <= x, clipped bracket, chord, constant/NaN outside; the |dx| <= 4.9e-32 guard of jax is not '
              'modelled); grid latitudes/longitudes strictly increasing and BallTree self-neighbour indices are table '
              'obligations; model tied to the code by differential correspondence in float64 vs exact rationals and, for '
              '_dot_interp, linear_interp_with_linear_extrap, _extrapolate_left/right/both, the padding loop of '
              '_linear_interp_with_safe_extrap, get_surface_pressure and HybridCoordinates.get_sigma_boundaries/centers, by '
              'C17_model_is_source: the model equals the transcription of the source AST regenerated on every run '
              '(tools/translate/gen_interp.py, length-checked array DSL Model/ArrDSL.v; n >= 2 nodes, data without NaN; '
              'searchsorted transcribed as a count; the final jnp.interp of the safe extrapolation, decorators and the '
              'sigma/pressure wrappers are pinned textually or not transcribed)')

_jax = None
_cache = {}
NQ = 12


def J():
    global _jax
    if _jax is None:
        util.setup_jax()
        import jax
        import jax.numpy as jnp
        from dinosaur import vertical_interpolation as vi, sigma_coordinates as sc, primitive_equations as pe
        _jax = (jax, jnp, vi, sc, pe)
    return _jax


def jitted(name):
    """jit(vmap over queries) of the scalar-query routines, built once."""
    jax, jnp, vi, sc, pe = J()
    if name not in _cache:
        if name.startswith('safe'):
            k = int(name[4:])
            fn = lambda x, xp, fp: vi._linear_interp_with_safe_extrap(x, xp, fp, n=k)
        else:
            fn = {'interp': vi.interp, 'dot': vi._dot_interp, 'lin': vi.linear_interp_with_linear_extrap}[name]
        _cache[name] = jax.jit(jax.vmap(fn, (0, None, None)))
    return _cache[name]


# ---------------------------------------------------------------------------
# generators
# ---------------------------------------------------------------------------
def dyadic_nodes(rng, n, denom=8, lo=-40):
    inc = rng.integers(1, 9, size=n)
    x = (int(rng.integers(lo, 40)) + np.concatenate([[0], np.cumsum(inc[:-1])])) / denom
    return x.astype(np.float64)


def float_nodes(rng, n):
    return np.cumsum(rng.uniform(0.05, 1.0, size=n)) + rng.uniform(-3, 3)


def make_data(rng, xp, kind):
    if kind == 'random':
        return rng.integers(-64, 65, size=xp.shape).astype(np.float64) / 8
    if kind == 'float':
        return rng.normal(size=xp.shape) * 10
    if kind == 'constant':
        return np.full(xp.shape, float(rng.integers(-20, 21)) / 4)
    if kind == 'plateau':          # repeated neighbouring values and equal end values
        v = rng.integers(-3, 4, size=xp.shape).astype(np.float64)
        v[-1] = v[0]
        if len(v) > 2: v[1] = v[0]
        return v
    if kind == 'int':              # integer-valued (and, in the runner, integer-typed) data
        return rng.integers(-50, 51, size=xp.shape).astype(np.float64)
    a = float(rng.integers(-12, 13)) / 4; c = float(rng.integers(-20, 21)) / 2
    return a * xp + c     # exact for dyadic nodes


def draw_queries(ctx, rng, xp, nq, dyadic, k=1, extras=True):
    """~20% below, ~20% exactly at nodes, ~40% inside, ~20% above; the safe-extrapolation
    window end points (and points just beyond) are added for dyadic nodes."""
    n = len(xp); d0 = xp[1] - xp[0]; dl = xp[-1] - xp[-2]
    out = []
    for _ in range(nq):
        u = rng.random()
        if u < 0.2:
            ctx.count('query:below')
            q = xp[0] - (float(rng.integers(1, 40)) / 16 * d0 if dyadic else rng.uniform(0.01, 4.0) * d0)
        elif u < 0.4:
            ctx.count('query:at-node')
            q = xp[int(rng.integers(0, n))]
        elif u < 0.8:
            ctx.count('query:inside')
            j = int(rng.integers(0, n - 1))
            t = float(rng.integers(1, 16)) / 16 if dyadic else rng.uniform(0.001, 0.999)
            q = xp[j] + t * (xp[j + 1] - xp[j])
        else:
            ctx.count('query:above')
            q = xp[-1] + (float(rng.integers(1, 40)) / 16 * dl if dyadic else rng.uniform(0.01, 4.0) * dl)
        out.append(float(q))
    if not extras:
        return out
    if dyadic:
        ctx.count('query:window-edge', 2); ctx.count('query:just-beyond-window', 2)
        out += [float(xp[0] - k * d0), float(xp[-1] + k * dl), float(xp[0] - k * d0 - d0 / 16), float(xp[-1] + k * dl + dl / 16)]
    out += [float(v) for v in xp]      # every node, including first and last
    ctx.count('query:each-node-appended', n)
    return out


def uneven_sigma(rng, K, bits=5):
    while True:
        inc = rng.integers(1, 6, size=K)
        tot = 2 ** bits
        if inc.sum() <= tot:
            inc[-1] += tot - inc.sum()
            return np.concatenate([[0], np.cumsum(inc)]) / tot


def edge_config(rng, direction):
    """Search an exact (dyadic) configuration in which some wrapper targets are bit-exactly at a source node
    AND at a limit of the one-cell window (the documented closed end of the safe extrapolation)."""
    for _ in range(4000):
        nP = int(rng.integers(2, 6)); K = int(rng.integers(2, 7))
        P = (np.cumsum(rng.integers(1, 4, size=nP)) * 64).astype(np.float64)
        b = uneven_sigma(rng, K, bits=4); sig = (b[1:] + b[:-1]) / 2
        sp = float(2.0 ** int(rng.integers(6, 13)))
        if direction == 'p2s':
            tgt = sig * sp; src = P
        else:
            tgt = P / sp; src = sig
        lim = [src[0] - (src[1] - src[0]), src[-1] + (src[-1] - src[-2])]
        if any(t in lim for t in tgt) and any(t in src for t in tgt):
            return P, b, sp
    return None


def generate(ctx):
    rng = ctx.rng
    quick = ctx.tier == 'quick'
    reps = 2 if quick else 10
    for n in range(2, 8):
        for r in range(reps):
            for kind in ('random', 'affine', 'constant', 'float', 'plateau', 'int'):
                if quick and kind == 'int' and not (r == 0 and n in (2, 3, 5)): continue
                if quick and kind == 'plateau' and not (r == 1 and n in (2, 4, 6)): continue
                dyadic = not (kind == 'float' or (r % 2 == 1 and kind == 'random'))
                xp = dyadic_nodes(rng, n, denom=1 if kind == 'int' else 8) if dyadic else float_nodes(rng, n)
                fp = make_data(rng, xp, kind)
                k = 1 + (r + n) % 3
                xs = draw_queries(ctx, rng, xp, NQ, dyadic, k)
                ctx.count(f'nodes:n={n}'); ctx.count('data:' + kind); ctx.count('nodes:dyadic' if dyadic else 'nodes:float')
                yield 'interp1d', {'xp': xp.tolist(), 'fp': fp.tolist(), 'xs': xs, 'kind': kind, 'k': k, 'dyadic': dyadic,
                                   'scalars': (2 if not quick else 1) if (kind == 'int' and r == 0 and n in (2, 3, 5)) else 0,
                                   'aff': [float(rng.integers(-12, 13)) / 4, float(rng.integers(-20, 21)) / 2]}
    # coordinates in very small / very large units (dyadic scalings keep the model exact), powers of ten,
    # queries hundreds to a million cells outside, nearly coincident (distinct) neighbouring nodes
    def aff_pair(): return [float(rng.integers(-12, 13)) / 4, float(rng.integers(-20, 21)) / 2]
    exps = [-30, -20, -10, 20] if quick else [-30, -25, -20, -15, -10, -5, 5, 10, 15, 20, 25, 30]
    for e2 in exps:
        for kind in ('random', 'affine'):
            n = int(rng.integers(2, 8)); xp = dyadic_nodes(rng, n) * 2.0 ** e2
            fp = make_data(rng, xp * 2.0 ** -e2, kind); k = 1 + int(rng.integers(0, 3))
            ctx.count(f'units:nodes scaled by 2^{e2}')
            yield 'interp1d', {'xp': xp.tolist(), 'fp': fp.tolist(), 'xs': draw_queries(ctx, rng, xp, NQ, True, k), 'kind': kind, 'k': k,
                               'dyadic': True, 'scalars': 0, 'aff': [aff_pair()[0] * 2.0 ** -e2, aff_pair()[1]]}
    for e10 in ([-6, -3, 5] if quick else [-9, -6, -3, -2, 2, 3, 5, 8]):
        n = int(rng.integers(2, 8)); xp = dyadic_nodes(rng, n) * 10.0 ** e10
        fp = make_data(rng, xp, 'random'); k = 1 + int(rng.integers(0, 3))
        ctx.count(f'units:nodes scaled by 1e{e10}')
        yield 'interp1d', {'xp': xp.tolist(), 'fp': fp.tolist(), 'xs': draw_queries(ctx, rng, xp, NQ, False, k), 'kind': 'float', 'k': k,
                           'dyadic': False, 'scalars': 0, 'aff': [aff_pair()[0] * 10.0 ** -e10, aff_pair()[1]]}
    for e2 in ([-20, 0] if quick else [-30, -20, -10, 0, 10, 30]):
        n = int(rng.integers(2, 8)); xp = dyadic_nodes(rng, n) * 2.0 ** e2
        fp = make_data(rng, xp, 'random'); d0 = xp[1] - xp[0]; dl = xp[-1] - xp[-2]
        far = [300.0, 4096.0, 1.0e6, float(2 ** 20) + 0.5]
        xs = [float(xp[0] - m * d0) for m in far] + [float(xp[-1] + m * dl) for m in far] + [float(v) for v in xp]
        ctx.count('query:far outside (300 .. 1e6 cells)', 2 * len(far))
        yield 'interp1d', {'xp': xp.tolist(), 'fp': fp.tolist(), 'xs': xs, 'kind': 'random', 'k': 1, 'dyadic': True, 'scalars': 0,
                           'tight': True, 'aff': [aff_pair()[0] * 2.0 ** -e2, aff_pair()[1]]}
    for r in range(3 if quick else 10):
        n = int(rng.integers(3, 7)); e2 = [0, -20, 10][r % 3]
        base = dyadic_nodes(rng, n); span = base[-1] - base[0]
        j = int(rng.integers(1, n - 1))                       # an interior node gets a twin at a relative gap of 2^-40
        gap = 2.0 ** (np.floor(np.log2(span)) - 40)
        xp = np.sort(np.concatenate([base, [base[j] + gap]])) * 2.0 ** e2
        assert np.all(np.diff(xp) > 0)
        fp = make_data(rng, xp, ['random', 'affine', 'int'][r % 3]) if r % 3 != 1 else None
        al, be = aff_pair(); al *= 2.0 ** -e2
        if fp is None: fp = al * xp + be
        mid = xp[j] + (xp[j + 1] - xp[j]) / 2
        xs = draw_queries(ctx, rng, base * 2.0 ** e2, 8, True, 1, extras=False) + [float(mid)] + [float(v) for v in xp]
        ctx.count('nodes:nearly coincident neighbours (gap 2^-40 of the span)'); ctx.count('query:inside the tiny cell')
        yield 'interp1d', {'xp': xp.tolist(), 'fp': fp.tolist(), 'xs': xs, 'kind': 'random', 'k': 1, 'dyadic': False, 'scalars': 0,
                           'tight': True, 'aff': [al, be]}
    # missing data handed to the safe extrapolation
    for r in range(3 if quick else 12):
        n = int(rng.integers(3, 8)); xp = dyadic_nodes(rng, n); fp = make_data(rng, xp, 'random')
        mask = (rng.random(n) < 0.3).astype(int); mask[int(rng.integers(0, n))] = 1
        xs = draw_queries(ctx, rng, xp, NQ, True, 1)
        yield 'safe_missing', {'xp': xp.tolist(), 'fp': fp.tolist(), 'mask': mask.tolist(), 'xs': xs, 'n_fixed': 7}
    # vectorised forms with 0-2 leading axes, _vertical_interp
    for r in range(3 if quick else 9):
        lead = r % 3
        nb = [3, 5, 4][r % 3] if quick else int(rng.integers(2, 8))
        shape_xy = (2, 2) if quick else (int(rng.integers(1, 3)), int(rng.integers(1, 4)))
        leadshape = tuple(int(rng.integers(1, 3)) for _ in range(lead))
        xp = dyadic_nodes(rng, nb)
        na = 4
        fp = util.small_rationals(rng, leadshape + (nb,) + shape_xy, -40, 40, 4)
        x = np.empty((na,) + shape_xy)
        for idx in np.ndindex(*shape_xy):
            x[(slice(None),) + idx] = draw_queries(ctx, rng, xp, na, True, 1, extras=False)
        ctx.count(f'leading-axes={lead}')
        yield 'vectorized', {'xp': xp.tolist(), 'fp': fp.tolist(), 'x': x.tolist()}
    for r in range(2 if quick else 6):
        nb = 4; na = 3; shape_xy = (2, 2)
        xp3 = np.empty((nb,) + shape_xy); x3 = np.empty((na,) + shape_xy)
        for idx in np.ndindex(*shape_xy):
            col = dyadic_nodes(rng, nb); xp3[(slice(None),) + idx] = col
            x3[(slice(None),) + idx] = draw_queries(ctx, rng, col, na, True, 1, extras=False)
        fp = util.small_rationals(rng, (nb,) + shape_xy, -40, 40, 4)
        yield 'vinterp_pe', {'xp3': xp3.tolist(), 'x3': x3.tolist(), 'fp': fp.tolist(), 'mode': r % 3}
    # sigma / pressure / hybrid wrappers
    nw = 6 if quick else 18
    for r in range(nw):
        exact = (r % 2 == 0)
        nP = int(rng.integers(2, 8)); K = int(rng.integers(2, 8))
        if exact:
            P = (np.cumsum(rng.integers(1, 4, size=nP)) * 64).astype(np.float64)
            b = uneven_sigma(rng, K)
            top = 2.0 ** np.ceil(np.log2(P[-1]))
            sp = rng.choice([top / 2, top, top, 2 * top], size=(1, 2, 2))
        else:
            P = np.cumsum(rng.uniform(20, 200, size=nP))
            inc = rng.uniform(0.2, 1.0, size=K); b = np.concatenate([[0], np.cumsum(inc)]); b = b / b[-1]; b[-1] = 1.0
            sp = rng.uniform(0.6, 1.4, size=(1, 2, 2)) * P[-1]
        lead = r % 3
        leadshape = tuple(int(rng.integers(1, 3)) for _ in range(lead))
        ctx.count('wrappers:exact-dyadic' if exact else 'wrappers:generic-float'); ctx.count(f'wrappers:leading-axes={lead}')
        yield 'wrappers', {'P': P.tolist(), 'b': b.tolist(), 'sp': sp.tolist(), 'lead': list(leadshape),
                           'a': float(rng.integers(-8, 9)) / 64, 'c': float(rng.integers(-20, 21)) / 2,
                           'seed': int(rng.integers(0, 2 ** 31)), 'exact': exact}
    for direction in ('p2s', 's2p', 'p2s', 's2p')[:(2 if quick else 4)]:
        cfg = edge_config(rng, direction)
        if cfg is None:
            ctx.count('edge-config:not-found'); continue
        P, b, sp0 = cfg
        sp = np.array([[[sp0, sp0 * 2], [sp0 / 2, sp0]]])
        ctx.count('edge-config:' + direction)
        yield 'wrappers', {'P': P.tolist(), 'b': b.tolist(), 'sp': sp.tolist(), 'lead': [],
                           'a': float(rng.integers(-8, 9)) / 64, 'c': float(rng.integers(-20, 21)) / 2,
                           'seed': int(rng.integers(0, 2 ** 31)), 'exact': True}
        if not quick:
            yield 'wrapper_kw', {'P': P.tolist(), 'b': b.tolist(), 'sp': sp.tolist(), 'lead': [],
                                 'seed': int(rng.integers(0, 2 ** 31)), 'exact': True}
    for e2 in ([-20] if quick else [-30, -20, 20]):         # pressure (levels AND surface pressure) in other units
        nP = int(rng.integers(3, 6)); K = int(rng.integers(3, 6))
        P = (np.cumsum(rng.integers(1, 4, size=nP)) * 64).astype(np.float64); top = 2.0 ** np.ceil(np.log2(P[-1]))
        sp = np.array([[[top / 4, top / 2], [top, 4 * top]]])
        ctx.count(f'units:wrappers pressure scaled by 2^{e2}')
        yield 'wrapper_kw', {'P': (P * 2.0 ** e2).tolist(), 'b': uneven_sigma(rng, K).tolist(), 'sp': (sp * 2.0 ** e2).tolist(), 'lead': [],
                             'seed': int(rng.integers(0, 2 ** 31)), 'exact': True}
    # node lists of length 2 on both sides
    yield 'wrapper_kw', {'P': [128.0, 320.0], 'b': [0.0, 0.375, 1.0], 'sp': [[[256.0, 512.0], [1024.0, 64.0]]], 'lead': [],
                         'seed': int(rng.integers(0, 2 ** 31)), 'exact': True}
    # forms: pytrees, 4-D / 5-D fields whose leading size equals the level count, surface fields, integer dtype, purity
    for r in range(1 if quick else 4):
        nP = int(rng.integers(2, 6)); K = int(rng.integers(2, 6))
        while K == nP: K = int(rng.integers(2, 6))
        P = (np.cumsum(rng.integers(1, 4, size=nP)) * 64).astype(np.float64)
        top = 2.0 ** np.ceil(np.log2(P[-1]))
        yield 'wrapper_forms', {'P': P.tolist(), 'b': uneven_sigma(rng, K).tolist(),
                                'sp': rng.choice([top / 2, top, 2 * top], size=(1, 2, 2)).tolist(), 'seed': int(rng.integers(0, 2 ** 31))}
    yield 'rejects', {}
    # every documented interpolate_fn choice through the wrappers, targets below / inside / above the source range
    for r in range(2 if quick else 8):
        exact = (r % 2 == 0)
        nP = int(rng.integers(3, 7)); K = int(rng.integers(3, 7))
        if exact:
            P = (np.cumsum(rng.integers(1, 4, size=nP)) * 64).astype(np.float64)
            b = uneven_sigma(rng, K)
            top = 2.0 ** np.ceil(np.log2(P[-1]))
            sp = np.array([[[top / 4, top / 2], [top, 4 * top]]])
        else:
            P = np.cumsum(rng.uniform(20, 200, size=nP))
            inc = rng.uniform(0.2, 1.0, size=K); b = np.concatenate([[0], np.cumsum(inc)]); b = b / b[-1]; b[-1] = 1.0
            sp = (np.array([[[0.2, 0.6], [1.1, 4.0]]]) * rng.uniform(0.9, 1.1, size=(1, 2, 2))) * P[-1]
        yield 'wrapper_kw', {'P': P.tolist(), 'b': b.tolist(), 'sp': sp.tolist(), 'lead': [2] if r % 2 else [],
                             'seed': int(rng.integers(0, 2 ** 31)), 'exact': exact}
    for r in range(2 if quick else 6):
        nH = int(rng.integers(2, 7))
        bb = np.sort(rng.choice(np.arange(0, 33), size=nH + 1, replace=False)) / 32.0
        aa = rng.integers(0, 9, size=nH + 1).astype(np.float64) * 16
        yield 'approx_sigma', {'a': aa.tolist(), 'bh': bb.tolist(), 'layers': int(rng.integers(1, 8)),
                               'sp': [None, 512.0, 1000.0, 250.0][(r + int(rng.integers(0, 4))) % 4]}
    for r in range(3 if quick else 10):
        exact = (r % 2 == 0)
        nH = int(rng.integers(2, 7)); K = int(rng.integers(2, 7))
        if exact:
            tot = (nH + 1) * 4
            bb = np.sort(rng.choice(np.arange(0, 33), size=nH + 1, replace=False)) / 32.0
            aa = rng.integers(0, 9, size=nH + 1).astype(np.float64) * 16
            sp = rng.choice([256.0, 512.0, 1024.0], size=(2, 2))
            b = uneven_sigma(rng, K)
        else:
            bb = np.sort(rng.uniform(0, 1, size=nH + 1)); aa = rng.uniform(0, 100, size=nH + 1)
            sp = rng.uniform(500, 1100, size=(2, 2))
            inc = rng.uniform(0.2, 1.0, size=K); b = np.concatenate([[0], np.cumsum(inc)]); b = b / b[-1]; b[-1] = 1.0
        # hybrid sigma centers must be increasing at every surface pressure used
        cen = lambda s: ((aa / s + bb)[1:] + (aa / s + bb)[:-1]) / 2
        if not all(np.all(np.diff(cen(s)) > 0) for s in sp.ravel()):
            aa = np.zeros(nH + 1); aa[1:-1] = 8.0
        if not all(np.all(np.diff(cen(s)) > 0) for s in sp.ravel()):
            aa = np.zeros(nH + 1)
        yield 'hybrid', {'a': aa.tolist(), 'bh': bb.tolist(), 'b': b.tolist(), 'sp': sp.tolist(),
                         'seed': int(rng.integers(0, 2 ** 31)), 'lead': r % 2}
    for r in range(4 if quick else 14):
        n = int(rng.integers(2, 8))
        levels = np.cumsum(rng.integers(1, 5, size=n)).astype(np.float64) * 50
        shape_xy = (2, 2)
        lead = r % 3
        leadshape = tuple(int(rng.integers(1, 3)) for _ in range(lead))
        dec = rng.integers(1, 40, size=leadshape + (n,) + shape_xy).astype(np.float64)
        top = rng.integers(50, 400, size=leadshape + (1,) + shape_xy).astype(np.float64)
        geo = top - np.cumsum(dec, axis=-3) + dec            # strictly decreasing along the level axis
        # terrain below the reference level (negative orography; Dead Sea, or the negative lobes of a spectrally
        # truncated orography): the contract is geometric, the sign of the height plays no role (seeded change C17-8)
        below = [0.0, 1.0, 0.5, 1.0][r % 4]
        geo = geo - below * (float(np.round(geo.max())) + 7.0)
        ctx.count('surface-pressure:orography ' + {0.0: 'above', 1.0: 'below', 0.5: 'both sides of'}[below] + ' the reference level')
        first = geo[(0,) * lead]                               # (n, x, y)
        lo_, hi_ = first.min(axis=0), first.max(axis=0)
        u = rng.integers(-3, 20, size=shape_xy) / 16.0          # mostly between the levels, some beyond either end
        g = [10.0, 9.75, 1.0, 8.0][r % 4]
        oro = (np.round((lo_ + u * (hi_ - lo_)) / g * 4) / 4)[None]
        ge = [0, -20, 0, 20, -30, 10][r % 6]; lf = [1.0, 100.0, 2.0 ** -10, 1.0][r % 4]     # geopotential / pressure in other units
        geo = geo * 2.0 ** ge; g = g * 2.0 ** ge; levels = levels * lf
        ctx.count(f'surface-pressure:geopotential scaled by 2^{ge}, levels by {lf}')
        ctx.count(f'surface-pressure:leading-axes={lead}')
        yield 'surface_pressure', {'levels': levels.tolist(), 'geo': geo.tolist(), 'oro': oro.tolist(), 'g': g}
    cfgs = [((5, 3, 'gauss', 0.0), (9, 6, 'equiangular_with_poles', 0.0)),          # up-sampling, poles in the target
            ((6, 4, 'equiangular', 0.25), (4, 5, 'gauss', 0.0)),                    # offset source, target beyond both ends
            ((8, 5, 'equiangular_with_poles', 0.0), (5, 3, 'equiangular', 0.5)),    # down-sampling
            ((6, 4, 'gauss', 0.6), (5, 4, 'equiangular', 0.0))]                     # nearest neighbour across the 0/2pi seam
    # longitude offsets: negative, larger than one spacing, last node beyond 2*pi; source only / target only / both / equal grids
    d = float(np.deg2rad(1.0))
    cfgs += [((6, 4, 'gauss', -d), (6, 4, 'gauss', -d)),
             ((5, 3, 'gauss', 0.0), (7, 4, 'equiangular', 1.0)),
             ((8, 4, 'equiangular', 1.1), (5, 3, 'gauss', 0.0)),
             ((6, 4, 'gauss', -0.5), (9, 5, 'equiangular', 0.9))]
    if not quick:
        cfgs += [((64, 32, 'gauss', -d), (64, 32, 'gauss', -d)), ((64, 32, 'gauss', 0.3), (64, 32, 'gauss', 0.3)),
                 ((10, 5, 'gauss', 0.0), (10, 5, 'gauss', -0.7)), ((10, 5, 'gauss', 6.0), (12, 6, 'equiangular_with_poles', -6.0))]
    if not quick:
        cfgs += [((4, 48, 'gauss', 0.0), (7, 9, 'equiangular_with_poles', 0.1)), ((96, 3, 'gauss', 0.0), (10, 8, 'gauss', 0.0)),
                 ((7, 7, 'gauss', 0.3), (14, 15, 'equiangular', 0.0)), ((12, 6, 'equiangular', 0.0), (12, 6, 'equiangular_with_poles', 0.0))]
    for r, (S, T) in enumerate(cfgs):
        yield 'regrid2', {'src': list(S), 'tgt': list(T), 'lead': [[], [3], [2, 2]][r % 3], 'int': r % 2 == 1, 'seed': int(rng.integers(0, 2 ** 31))}
    for r, (w1, w2) in enumerate([(2, 2), (2, 3), (3, 2), (4, 3)] if quick else [(2, 2), (2, 3), (3, 2), (4, 3), (3, 5), (5, 4), (6, 6), (4, 2)]):
        yield 'regrid', {'w1': w1, 'w2': w2, 'lead': r % 3, 'seed': int(rng.integers(0, 2 ** 31))}


# ---------------------------------------------------------------------------
# helpers
# ---------------------------------------------------------------------------
def cmp_opt(ctx, name, impl, pairs, scale):
    """implementation NaN <-> model None."""
    impl = np.asarray(impl, dtype=np.float64).ravel()
    if pairs is None:
        ctx.corr(name, impl, None); return
    flags = [int(v) for v in pairs[0::2]]; vals = pairs[1::2]
    ctx.exact(name + ' [missing mask]', np.isnan(impl).astype(int).tolist(), [1 - f for f in flags])
    ctx.corr(name, np.where(np.isnan(impl), 0.0, impl), vals, scale=scale)


def scale_of(xp, fp, xs):
    xp = np.asarray(xp); dmin = float(np.min(np.diff(xp))) if len(xp) > 1 else 1.0
    reach = float(np.max(np.abs(np.asarray(xs)[:, None] - xp[None, :]))) if len(xs) else 0.0
    f = float(np.nanmax(np.abs(fp))) if np.size(fp) else 0.0
    return (f + 1e-300) * (1.0 + 2.0 * reach / dmin)


def scale_tight(xp, fp, xs):
    """magnitude of the two terms fp[j]*(1-w), fp[j+1]*w actually summed for each query (w from the cell used),
    independent of the spacing of OTHER cells (used for nearly coincident neighbouring nodes)."""
    xp = np.asarray(xp); xs = np.asarray(xs); n = len(xp)
    j = np.clip(np.searchsorted(xp, xs, side='right') - 1, 0, n - 2)
    w = np.abs((xs - xp[j]) / (xp[j + 1] - xp[j])) if len(xs) else np.zeros(1)
    f = float(np.nanmax(np.abs(fp))) if np.size(fp) else 0.0
    return (f + 1e-300) * (1.0 + 2.0 * max(1.0, float(np.max(w))))


def chord(xp, fp, j, x):
    return fp[j] + (x - xp[j]) / (xp[j + 1] - xp[j]) * (fp[j + 1] - fp[j])


def oracles_1d(ctx, xp, fp, xs, k, vals, tag='', tight=False):
    """The clauses of the property for one node list / data / query set; `vals` maps
    routine name -> implementation output."""
    n = len(xp); xs = np.asarray(xs)
    s = scale_tight(xp, fp, xs) if tight else scale_of(xp, fp, xs)
    tol = 2.0 ** -36 * s
    below = xs < xp[0]; above = xs > xp[-1]; inside = ~below & ~above
    ref = np.interp(xs, xp, fp)            # independent reference piecewise-linear interpolant (numpy)
    jj = np.clip(np.searchsorted(xp, xs, side='right') - 1, 0, n - 2)
    lo = np.minimum(fp[jj], fp[jj + 1]); hi = np.maximum(fp[jj], fp[jj + 1])
    lin_expect = np.where(below, chord(xp, fp, 0, xs), np.where(above, chord(xp, fp, n - 2, xs), ref))
    wlo = xp[0] - k * (xp[1] - xp[0]); whi = xp[-1] + k * (xp[-1] - xp[-2])
    inwin = (xs >= wlo) & (xs <= whi)
    at = np.array([np.any(x == xp) for x in xs])
    for name, v in vals.items():
        v = np.asarray(v, dtype=np.float64)
        fin = np.where(np.isnan(v), 0.0, v)
        if at.any():
            want = np.array([fp[int(np.argmax(x == xp))] for x in xs[at]])
            ctx.oracle_close(f'{name}: returns the source value at source coordinates{tag}', v[at], want, scale=s)
        m = inside
        ctx.oracle_close(f'{name}: agrees with the reference piecewise-linear interpolant inside the range{tag}', v[m], ref[m], scale=s)
        ok = np.all((fin[m] >= lo[m] - tol) & (fin[m] <= hi[m] + tol) & ~np.isnan(v[m]))
        ctx.oracle(f'{name}: bounded by the neighbouring values inside the range{tag}', bool(ok),
                   {'x': xs[m].tolist(), 'val': v[m].tolist(), 'lo': lo[m].tolist(), 'hi': hi[m].tolist()})
        if name in ('interp', 'dot', 'vertical_interpolation'):
            ctx.oracle_close(f'{name}: constant extrapolation below{tag}', v[below], np.full(int(below.sum()), fp[0]), scale=s)
            ctx.oracle_close(f'{name}: constant extrapolation above{tag}', v[above], np.full(int(above.sum()), fp[-1]), scale=s)
        elif name == 'lin':
            ctx.oracle_close(f'lin: unlimited linear extrapolation continues the end cells{tag}', v, lin_expect, scale=s)
        elif name.startswith('safe'):
            ctx.oracle(f'safe: missing strictly beyond the window of n cells, present on the closed window{tag}',
                       bool(np.all(np.isnan(v) == ~inwin)),
                       {'x': xs.tolist(), 'val': v.tolist(), 'window': [float(wlo), float(whi)]})
            ctx.oracle_close(f'safe: linear on the closed window{tag}', v[inwin], lin_expect[inwin], scale=s)
    if 'dot' in vals and 'interp' in vals:
        ctx.oracle_close(f'accelerator (matrix) path equals the default path for every query{tag}', vals['dot'], vals['interp'], scale=s)


# ---------------------------------------------------------------------------
# runners
# ---------------------------------------------------------------------------
def r_interp1d(ctx, a):
    jax, jnp, vi, sc, pe = J()
    xp = np.asarray(a['xp'], dtype=np.float64); fp = np.asarray(a['fp'], dtype=np.float64)
    xs = np.asarray(a['xs'], dtype=np.float64); n = len(xp); k = a['k']
    tight = bool(a.get('tight'))
    s = scale_tight(xp, fp, xs) if tight else scale_of(xp, fp, xs)
    jx, jxp, jfp = jnp.asarray(xs), jnp.asarray(xp), jnp.asarray(fp)
    if a['kind'] == 'int':         # integer-typed node and data arrays (as in the repo's own tests)
        jxp = jnp.asarray(xp.astype(np.int64)); jfp = jnp.asarray(fp.astype(np.int64))
        ctx.count('dtype:int64 nodes+data')
        # python-scalar / 0-d / integer queries through the un-vmapped public routines
        for q in ((float(xs[0]), int(xp[0]), np.float64(xs[2]), float(xp[-1]) + 0.5) if a.get('scalars') == 2 else
                  (float(xs[0]), int(xp[0])) if a.get('scalars') else ()):
            for name, fn, cmd in (('interp', vi.interp, 0), ('_dot_interp', vi._dot_interp, 1),
                                  ('linear_interp_with_linear_extrap', vi.linear_interp_with_linear_extrap, 2)):
                ctx.corr(f'{name} (python scalar query, integer arrays)', [float(fn(q, jxp, jfp))],
                         ctx.model.call(cmd, [n], [xp, fp, [q]]), scale=s)
            cmp_opt(ctx, '_linear_interp_with_safe_extrap (python scalar query, integer arrays)',
                    [float(vi._linear_interp_with_safe_extrap(q, jxp, jfp, n=k))], ctx.model.call(3, [n, 0, k], [xp, fp, [q]]), s)
    vals = {}
    vals['interp'] = np.asarray(jitted('interp')(jx, jxp, jfp))
    vals['dot'] = np.asarray(jitted('dot')(jx, jxp, jfp))
    vals['lin'] = np.asarray(jitted('lin')(jx, jxp, jfp))
    vals[f'safe{k}'] = np.asarray(jitted(f'safe{k}')(jx, jxp, jfp))
    vals['vertical_interpolation'] = np.asarray(vi.vertical_interpolation(jx, xp, jfp))
    ctx.corr('interp (jnp.interp path)', vals['interp'], ctx.model.call(0, [n], [xp, fp, xs]), scale=s)
    ctx.corr('vertical_interpolation', vals['vertical_interpolation'], ctx.model.call(0, [n], [xp, fp, xs]), scale=s)
    ctx.corr('_dot_interp (called directly)', vals['dot'], ctx.model.call(1, [n], [xp, fp, xs]), scale=s)
    ctx.corr('linear_interp_with_linear_extrap', vals['lin'], ctx.model.call(2, [n], [xp, fp, xs]), scale=s)
    cmp_opt(ctx, f'_linear_interp_with_safe_extrap n={k}', vals[f'safe{k}'], ctx.model.call(3, [n, 0, k], [xp, fp, xs]), s)
    if a['dyadic']:
        w = ctx.model.call(4, [n, k], [xp])
        ctx.exact('documented window = padded end nodes', [float(xp[0] - k * (xp[1] - xp[0])), float(xp[-1] + k * (xp[-1] - xp[-2]))],
                  [float(v) for v in w])
    oracles_1d(ctx, xp, fp, xs, k, vals, tight=tight)
    # affine exactness (data affine in the coordinate), independent of the data of this case
    al, be = a['aff']
    aff = al * xp + be
    jaff = jnp.asarray(aff); want = al * xs + be
    sa = (scale_tight(xp, aff, xs) if tight else scale_of(xp, aff, xs)) + abs(al) * float(np.max(np.abs(xs))) + abs(be)
    inside = (xs >= xp[0]) & (xs <= xp[-1])
    inwin = (xs >= xp[0] - k * (xp[1] - xp[0])) & (xs <= xp[-1] + k * (xp[-1] - xp[-2]))
    for name in ('interp', 'dot'):
        v = np.asarray(jitted(name)(jx, jxp, jaff))
        ctx.oracle_close(f'{name}: exact for affine data inside the range', v[inside], want[inside], scale=sa)
    v = np.asarray(jitted('lin')(jx, jxp, jaff))
    ctx.oracle_close('lin: exact for affine data everywhere', v, want, scale=sa)
    v = np.asarray(jitted(f'safe{k}')(jx, jxp, jaff))
    ctx.oracle_close('safe: exact for affine data on the window', v[inwin], want[inwin], scale=sa)
    ctx.oracle('safe: missing beyond the window (affine data)', bool(np.all(np.isnan(v) == ~inwin)), {'x': xs.tolist(), 'val': v.tolist()})


def r_safe_missing(ctx, a):
    jax, jnp, vi, sc, pe = J()
    xp = np.asarray(a['xp'], dtype=np.float64); fp = np.asarray(a['fp'], dtype=np.float64)
    mask = np.asarray(a['mask']); xs = np.asarray(a['xs'], dtype=np.float64); n = len(xp)
    fpn = np.where(mask == 1, np.nan, fp)
    v = np.asarray(jitted('safe1')(jnp.asarray(xs), jnp.asarray(xp), jnp.asarray(fpn)))
    cmp_opt(ctx, '_linear_interp_with_safe_extrap with missing data', v,
            ctx.model.call(3, [n, 0, 1], [xp, fp, xs, mask]), scale_of(xp, fp, xs))


def r_vectorized(ctx, a):
    jax, jnp, vi, sc, pe = J()
    xp = np.asarray(a['xp'], dtype=np.float64); fp = np.asarray(a['fp'], dtype=np.float64)
    x = np.asarray(a['x'], dtype=np.float64); nb = len(xp); na = x.shape[0]
    for name, fn, cmd in (('interp', vi.interp, 0), ('linear_interp_with_linear_extrap', vi.linear_interp_with_linear_extrap, 2),
                          ('_dot_interp', vi._dot_interp, 1), ('_linear_interp_with_safe_extrap', vi._linear_interp_with_safe_extrap, 3)):
        key = 'vec:' + name
        if key not in _cache: _cache[key] = vi.vectorize_vertical_interpolation(fn)
        out = np.asarray(_cache[key](jnp.asarray(x), jnp.asarray(xp), jnp.asarray(fp)))
        ctx.exact(f'vectorize_vertical_interpolation({name}) shape', list(out.shape), list(fp.shape[:-3]) + [na] + list(fp.shape[-2:]))
        for lead in np.ndindex(*fp.shape[:-3]):
            for ij in np.ndindex(*fp.shape[-2:]):
                col = fp[lead + (slice(None),) + ij]; q = x[(slice(None),) + ij]
                o = out[lead + (slice(None),) + ij]
                s = scale_of(xp, col, q)
                if cmd == 3:
                    cmp_opt(ctx, f'vectorize_vertical_interpolation({name})', o, ctx.model.call(3, [nb, 0, 1], [xp, col, q]), s)
                else:
                    ctx.corr(f'vectorize_vertical_interpolation({name})', o, ctx.model.call(cmd, [nb], [xp, col, q]), scale=s)


def r_vinterp_pe(ctx, a):
    jax, jnp, vi, sc, pe = J()
    xp3 = np.asarray(a['xp3'], dtype=np.float64); x3 = np.asarray(a['x3'], dtype=np.float64)
    fp = np.asarray(a['fp'], dtype=np.float64); mode = a['mode']
    # mode 0: x 3-D, xp 1-D; mode 1: x 1-D, xp 3-D; mode 2: both 3-D
    xp = xp3 if mode in (1, 2) else xp3[:, 0, 0]
    x = x3 if mode in (0, 2) else x3[:, 0, 0]
    out = np.asarray(pe._vertical_interp(jnp.asarray(x), jnp.asarray(xp), jnp.asarray(fp)))
    nb = fp.shape[0]
    for ij in np.ndindex(*fp.shape[1:]):
        cxp = xp[(slice(None),) + ij] if xp.ndim == 3 else xp
        cx = x[(slice(None),) + ij] if x.ndim == 3 else x
        col = fp[(slice(None),) + ij]; o = out[(slice(None),) + ij]
        s = scale_of(cxp, col, cx)
        ctx.corr('primitive_equations._vertical_interp', o, ctx.model.call(0, [nb], [cxp, col, cx]), scale=s)
        ref = np.interp(cx, cxp, col)
        ctx.oracle_close('_vertical_interp: piecewise linear inside, constant outside', o, ref, scale=s)


def r_wrappers(ctx, a):
    jax, jnp, vi, sc, pe = J()
    P = np.asarray(a['P'], dtype=np.float64); b = np.asarray(a['b'], dtype=np.float64)
    sp = np.asarray(a['sp'], dtype=np.float64); lead = tuple(a['lead'])
    rng = np.random.Generator(np.random.PCG64(a['seed']))
    pc = vi.PressureCoordinates(P); sg = sc.SigmaCoordinates(b)
    sig = np.asarray(sg.centers); nP = len(P); K = len(sig)
    xy = sp.shape[-2:]
    fld = rng.integers(-64, 65, size=lead + (nP,) + xy).astype(np.float64) / 8
    s = float(np.abs(fld).max() + 1) * 8
    # pressure -> sigma
    on_sigma = np.asarray(vi.interp_pressure_to_sigma(jnp.asarray(fld), pc, sg, jnp.asarray(sp)))
    ctx.exact('interp_pressure_to_sigma shape', list(on_sigma.shape), list(lead) + [K] + list(xy))
    for ld in np.ndindex(*lead):
        for ij in np.ndindex(*xy):
            col = fld[ld + (slice(None),) + ij]; o = on_sigma[ld + (slice(None),) + ij]; spv = sp[(0,) + ij]
            cmp_opt(ctx, 'interp_pressure_to_sigma', o, ctx.model.call(5, [nP, K], [P, col, sig, [spv]]), s)
            # clause: documented window, linear inside (independent numpy evaluation)
            tgt = sig * spv
            wlo = P[0] - (P[1] - P[0]); whi = P[-1] + (P[-1] - P[-2])
            if a['exact']:
                ctx.count('wrappers:p2s target exactly at window limit', int(np.sum((tgt == wlo) | (tgt == whi))))
                ctx.count('wrappers:p2s target exactly at a node', int(np.sum(np.isin(tgt, P))))
            inw = (tgt >= wlo) & (tgt <= whi)
            if a['exact']:
                ctx.oracle('interp_pressure_to_sigma: missing exactly beyond one cell', bool(np.all(np.isnan(o) == ~inw)),
                           {'target': tgt.tolist(), 'val': o.tolist(), 'window': [float(wlo), float(whi)]})
            ins = (tgt >= P[0]) & (tgt <= P[-1])
            ctx.oracle_close('interp_pressure_to_sigma: reference interpolant at sigma*sp inside the range', o[ins], np.interp(tgt[ins], P, col), scale=s)
    # sigma -> pressure with arbitrary data on sigma levels (some missing)
    fs = rng.integers(-64, 65, size=lead + (K,) + xy).astype(np.float64) / 8
    miss = rng.random(size=fs.shape) < 0.15
    fsn = np.where(miss, np.nan, fs)
    on_p = np.asarray(vi.interp_sigma_to_pressure(jnp.asarray(fsn), pc, sg, jnp.asarray(sp)))
    ctx.exact('interp_sigma_to_pressure shape', list(on_p.shape), list(lead) + [nP] + list(xy))
    for ld in np.ndindex(*lead):
        for ij in np.ndindex(*xy):
            col = fs[ld + (slice(None),) + ij]; mk = miss[ld + (slice(None),) + ij].astype(int)
            o = on_p[ld + (slice(None),) + ij]; spv = sp[(0,) + ij]
            cmp_opt(ctx, 'interp_sigma_to_pressure', o, ctx.model.call(6, [K, nP], [sig, col, P, [spv], mk]), s)
            if a['exact'] and not ld:
                q = P / spv; slo = sig[0] - (sig[1] - sig[0]); shi = sig[-1] + (sig[-1] - sig[-2])
                ctx.count('wrappers:s2p target exactly at window limit', int(np.sum((q == slo) | (q == shi))))
                ctx.count('wrappers:s2p target exactly at a node', int(np.sum(np.isin(q, sig))))
                if not mk.any():
                    ctx.oracle('interp_sigma_to_pressure: present on the closed one-cell window, missing strictly beyond',
                               bool(np.array_equal(np.isnan(o), (q < slo) | (q > shi))),
                               {'target': q.tolist(), 'val': o.tolist(), 'window': [float(slo), float(shi)]})
    # round trip of columns affine in pressure
    al, be = a['a'], a['c']
    aff = np.broadcast_to((al * P + be).reshape((nP, 1, 1)), lead + (nP,) + xy).copy()
    mid = vi.interp_pressure_to_sigma(jnp.asarray(aff), pc, sg, jnp.asarray(sp))
    back = np.asarray(vi.interp_sigma_to_pressure(mid, pc, sg, jnp.asarray(sp)))
    mid = np.asarray(mid)
    sa = float(np.abs(aff).max() + abs(al) * P[-1] * 4 + 1)
    for ld in np.ndindex(*lead):
        for ij in np.ndindex(*xy):
            o = back[ld + (slice(None),) + ij]; spv = sp[(0,) + ij]; col = aff[ld + (slice(None),) + ij]
            cmp_opt(ctx, 'pressure->sigma->pressure round trip', o, ctx.model.call(7, [nP, K], [P, sig, col, [spv]]), sa)
            fin = ~np.isnan(o)
            ctx.oracle_close('round trip of a column affine in pressure returns the column wherever it returns a number',
                             o[fin], col[fin], scale=sa)
            tgt = sig * spv
            allin = bool(np.all((tgt >= P[0] - (P[1] - P[0])) & (tgt <= P[-1] + (P[-1] - P[-2]))))
            q = P / spv
            slo = sig[0] - (sig[1] - sig[0]); shi = sig[-1] + (sig[-1] - sig[-2])
            margin = 1e-9 if not a['exact'] else 0.0
            inw = (q >= slo + margin) & (q <= shi - margin); outw = (q < slo - margin) | (q > shi + margin)
            if allin:
                ctx.count('roundtrip:columns-all-sigma-levels-covered')
                ctx.oracle('round trip is defined on the doubly covered range', bool(np.all(fin[inw])),
                           {'q': q.tolist(), 'val': o.tolist(), 'sigma_window': [float(slo), float(shi)]})
            ctx.oracle('round trip is missing outside the safe window of the sigma levels', bool(np.all(~fin[outw])),
                       {'q': q.tolist(), 'val': o.tolist(), 'sigma_window': [float(slo), float(shi)]})
            ctx.count('roundtrip:levels-returned', int(fin.sum())); ctx.count('roundtrip:levels-missing', int((~fin).sum()))


def interp_choices():
    """(label, scalar routine, model command, k) for every documented extrapolation rule."""
    import functools
    jax, jnp, vi, sc, pe = J()
    if 'choices' not in _cache:
        ch = [('constant:interp', vi.interp, 0, 0), ('unlimited-linear:linear_interp_with_linear_extrap', vi.linear_interp_with_linear_extrap, 2, 0),
              ('matrix:_dot_interp', vi._dot_interp, 1, 0)]
        for k in (1, 2, 3):
            ch.append((f'safe n={k}', functools.partial(vi._linear_interp_with_safe_extrap, n=k), 3, k))
        _cache['choices'] = [(lab, fn, vi.vectorize_vertical_interpolation(fn), jax.jit(jax.vmap(fn, (0, None, None))), cmd, k)
                             for lab, fn, cmd, k in ch]
    return _cache['choices']


def r_wrapper_kw(ctx, a):
    """`interpolate_fn` is honoured by both wrappers: result == the given routine applied column-wise
    at the documented target coordinate (sigma*sp resp. p/sp) == the corresponding model function."""
    jax, jnp, vi, sc, pe = J()
    P = np.asarray(a['P'], dtype=np.float64); b = np.asarray(a['b'], dtype=np.float64)
    sp = np.asarray(a['sp'], dtype=np.float64); lead = tuple(a['lead'])
    rng = np.random.Generator(np.random.PCG64(a['seed']))
    pc = vi.PressureCoordinates(P); sg = sc.SigmaCoordinates(b)
    sig = np.asarray(sg.centers); nP = len(P); K = len(sig); xy = sp.shape[-2:]
    fP = rng.integers(-64, 65, size=lead + (nP,) + xy).astype(np.float64) / 8
    fS = rng.integers(-64, 65, size=lead + (K,) + xy).astype(np.float64) / 8
    for direction, wrapper, src, fld, nsrc in (('pressure->sigma', vi.interp_pressure_to_sigma, P, fP, nP),
                                               ('sigma->pressure', vi.interp_sigma_to_pressure, sig, fS, K)):
        outs = {}
        for lab, fn, vfn, direct, cmd, k in interp_choices():
            if ctx.tier == 'quick' and lab in ('matrix:_dot_interp', 'safe n=3'):
                continue
            out = np.asarray(wrapper(jnp.asarray(fld), pc, sg, jnp.asarray(sp), interpolate_fn=vfn))
            outs[lab] = out
            for ij in np.ndindex(*xy):
                spv = sp[(0,) + ij]
                if direction == 'pressure->sigma':
                    tgt = sig * spv; tgt_exact = [Fraction(float(v)) * Fraction(float(spv)) for v in sig]
                else:
                    tgt = P / spv; tgt_exact = [Fraction(float(v)) / Fraction(float(spv)) for v in P]
                for t in tgt:
                    ctx.count(f'kw:{direction}:target-' + ('below' if t < src[0] else 'above' if t > src[-1] else 'inside'))
                for ld in np.ndindex(*lead):
                    col = fld[ld + (slice(None),) + ij]; o = out[ld + (slice(None),) + ij]
                    s = scale_of(src, col, tgt)
                    want = np.asarray(direct(jnp.asarray(tgt), jnp.asarray(src), jnp.asarray(col)))
                    same = bool(np.array_equal(np.isnan(o), np.isnan(want))) and bool(
                        np.all(np.abs(np.nan_to_num(o) - np.nan_to_num(want)) <= 2.0 ** -36 * s))
                    ctx.oracle(f'{direction}: the wrapper applies the interpolation function it was given ({lab.split(":")[0]})', same,
                               {'interpolate_fn': lab, 'target': tgt.tolist(), 'wrapper': o.tolist(), 'routine': want.tolist()})
                    if cmd == 3:
                        cmp_opt(ctx, f'{direction} interpolate_fn={lab}', o, ctx.model.call(3, [nsrc, 0, k], [src, col, tgt_exact]), s)
                    else:
                        ctx.corr(f'{direction} interpolate_fn={lab}', o, ctx.model.call(cmd, [nsrc], [src, col, tgt_exact]), scale=s)
        # default keyword == safe extrapolation with one cell
        dflt = np.asarray(wrapper(jnp.asarray(fld), pc, sg, jnp.asarray(sp)))
        ctx.oracle(f'{direction}: default interpolate_fn is safe extrapolation with n=1',
                   bool(np.array_equal(dflt, outs['safe n=1'], equal_nan=True)), None)


def r_approx_sigma(ctx, a):
    """HybridCoordinates.to_approx_sigma_coords: `layers` and `surface_pressure` keywords are threaded."""
    jax, jnp, vi, sc, pe = J()
    aa = np.asarray(a['a'], dtype=np.float64); bb = np.asarray(a['bh'], dtype=np.float64); L = a['layers']
    hc = vi.HybridCoordinates(a_boundaries=aa, b_boundaries=bb); nH = hc.layers
    spv = 1013.25 if a['sp'] is None else a['sp']
    kw = {} if a['sp'] is None else {'surface_pressure': a['sp']}
    bnd = aa / spv + bb
    xs = np.linspace(0, 1, L + 1); xp = np.linspace(0, 1, nH + 1)
    ref = np.interp(xs, xp, bnd); ref[0] = 0.0; ref[-1] = 1.0
    try:
        got = np.asarray(hc.to_approx_sigma_coords(layers=L, **kw).boundaries); acc = 1
    except ValueError:
        got = None; acc = 0
    ok_ref = bool(abs(ref[0]) <= 1e-8 and np.all(np.diff(ref) > 0))
    ctx.oracle('to_approx_sigma_coords accepts iff the interpolated bounds are increasing', acc == int(ok_ref), {'ref': ref.tolist(), 'accepted': acc})
    if got is not None:
        ctx.oracle_close('to_approx_sigma_coords: interpolates a/sp+b (given sp, given layers) on the uniform index grid, ends set to 0 and 1',
                         got, ref, scale=1.0)
        m = ctx.model.call(0, [nH + 1], [xp, bnd, xs])
        m = [Fraction(0)] + list(m[1:-1]) + [Fraction(1)] if L >= 1 else m
        ctx.corr('to_approx_sigma_coords', got, m, scale=float(np.abs(bnd).max()) + 1)


def r_wrapper_forms(ctx, a):
    """pytrees; 4-D and 5-D fields whose LEADING size equals the level count; surface / 2-D / scalar leaves pass
    through; integer-typed fields and surface pressure; purity across interleaved static configurations."""
    jax, jnp, vi, sc, pe = J()
    P = np.asarray(a['P'], dtype=np.float64); b = np.asarray(a['b'], dtype=np.float64)
    sp = np.asarray(a['sp'], dtype=np.float64)
    rng = np.random.Generator(np.random.PCG64(a['seed']))
    pc = vi.PressureCoordinates(P); sg = sc.SigmaCoordinates(b)
    sig = (b[1:] + b[:-1]) / 2; nP = len(P); K = len(sig); xy = sp.shape[-2:]
    ri = lambda *sh: rng.integers(-64, 65, size=sh)
    for direction, wrapper, src, nsrc, ndst, cmd in (('pressure->sigma', vi.interp_pressure_to_sigma, P, nP, K, 5),
                                                     ('sigma->pressure', vi.interp_sigma_to_pressure, sig, K, nP, 6)):
        other = ndst
        tree = {'lead=levels 4-D': ri(nsrc, nsrc, *xy) / 8.0, '5-D': ri(2, other, nsrc, *xy) / 8.0,
                'lead=other count 4-D': ri(other, nsrc, *xy) / 8.0, 'int64 3-D': ri(nsrc, *xy).astype(np.int64), 'scalar': 2.5}
        if direction == 'pressure->sigma':   # only this wrapper documents a shape condition
            tree.update({'surface (1,x,y)': ri(1, *xy) / 8.0, '2-D': ri(*xy) / 8.0, 'wrong level count': ri(nsrc + 1, *xy) / 8.0})
        spj = jnp.asarray(sp) if direction == 'pressure->sigma' else jnp.asarray(sp.astype(np.int64))
        out = wrapper({k: (jnp.asarray(v) if not np.isscalar(v) else v) for k, v in tree.items()}, pc, sg, spj)
        ctx.exact(f'{direction} pytree keys', sorted(out.keys()), sorted(tree.keys()))
        for key, v in tree.items():
            o = np.asarray(out[key]); v = np.asarray(v)
            regridded = v.ndim >= 3 and v.shape[-3] == nsrc
            ctx.count(f'forms:{key}')
            if not regridded:
                ctx.oracle(f'{direction}: leaves that are not (..., level, x, y) fields pass through unchanged',
                           o.shape == v.shape and bool(np.array_equal(o, v)), {'leaf': key, 'in_shape': list(v.shape), 'out_shape': list(o.shape)})
                continue
            want_shape = list(v.shape[:-3]) + [ndst] + list(xy)
            if not ctx.oracle(f'{direction}: the level axis is axis -3 for every field rank', list(o.shape) == want_shape,
                              {'leaf': key, 'in_shape': list(v.shape), 'out_shape': list(o.shape), 'expected': want_shape}):
                continue
            s = float(np.abs(v).max() + 1) * 8
            for ld in np.ndindex(*v.shape[:-3]):
                for ij in np.ndindex(*xy):
                    col = v[ld + (slice(None),) + ij].astype(np.float64); oo = o[ld + (slice(None),) + ij]; spv = sp[(0,) + ij]
                    tgt = sig * spv if direction == 'pressure->sigma' else P / spv
                    want = np.asarray(jitted('safe1')(jnp.asarray(tgt), jnp.asarray(src), jnp.asarray(col)))
                    ctx.oracle(f'{direction}: every column of every leaf is the 1-D safe interpolation of that column',
                               bool(np.array_equal(np.isnan(oo), np.isnan(want)) and np.all(np.abs(np.nan_to_num(oo) - np.nan_to_num(want)) <= 2.0 ** -36 * s)),
                               {'leaf': key, 'index': list(ld + ij), 'wrapper': oo.tolist(), 'routine': want.tolist()})
                    args = [P, col, sig, [spv]] if cmd == 5 else [sig, col, P, [spv]]
                    cmp_opt(ctx, f'{direction} [{key}]', oo, ctx.model.call(cmd, [nsrc, ndst], args), s)
        # purity: two static configurations differing in ONE centre, used interleaved in both orders
        P2 = P.copy(); P2[-1] += 32.0; pc2 = vi.PressureCoordinates(P2)
        fld = jnp.asarray(ri(nsrc, *xy) / 8.0)
        r1 = np.asarray(wrapper(fld, pc, sg, jnp.asarray(sp))); r2 = np.asarray(wrapper(fld, pc2, sg, jnp.asarray(sp)))
        r1b = np.asarray(wrapper(fld, vi.PressureCoordinates(P.copy()), sg, jnp.asarray(sp))); r2b = np.asarray(wrapper(fld, pc2, sg, jnp.asarray(sp)))
        ctx.oracle(f'{direction}: repeated / interleaved calls are bit-identical', bool(np.array_equal(r1, r1b, equal_nan=True) and np.array_equal(r2, r2b, equal_nan=True)), None)
        for ij in np.ndindex(*xy):
            col = np.asarray(fld)[(slice(None),) + ij]; spv = sp[(0,) + ij]
            args = [P2, col, sig, [spv]] if cmd == 5 else [sig, col, P2, [spv]]
            src2 = P2 if cmd == 5 else sig
            tgt2 = sig * spv if cmd == 5 else P2 / spv
            want = np.asarray(jitted('safe1')(jnp.asarray(tgt2), jnp.asarray(src2), jnp.asarray(col)))
            got = r2[(slice(None),) + ij]
            ctx.oracle(f'{direction}: a second coordinate object differing in one centre is honoured (no stale static configuration)',
                       bool(np.array_equal(np.isnan(got), np.isnan(want)) and np.all(np.abs(np.nan_to_num(got) - np.nan_to_num(want)) <= 1e-9 * (np.abs(col).max() + 1) * 8)),
                       {'wrapper': got.tolist(), 'routine': want.tolist()})
            cmp_opt(ctx, f'{direction} second static configuration (one centre changed)', r2[(slice(None),) + ij],
                    ctx.model.call(cmd, [nsrc, ndst], args), float(np.abs(col).max() + 1) * 8)


def r_rejects(ctx, a):
    jax, jnp, vi, sc, pe = J()
    from dinosaur import horizontal_interpolation as hi, spherical_harmonic as sh
    def raises(f):
        try: f(); return False
        except ValueError: return True
    for c in ([1.0, 1.0, 2.0], [3.0, 2.0], [1.0, 2.0, 1.5]):
        ctx.oracle('PressureCoordinates rejects non-increasing centers', raises(lambda: vi.PressureCoordinates(c)), c)
    ctx.oracle('PressureCoordinates accepts increasing centers', not raises(lambda: vi.PressureCoordinates([1.0, 2.0, 2.5])), None)
    ctx.oracle('HybridCoordinates rejects a/b of different length',
               raises(lambda: vi.HybridCoordinates(a_boundaries=np.zeros(3), b_boundaries=np.zeros(4))), None)
    g1 = sh.Grid(longitude_nodes=4, latitude_nodes=3); g2 = sh.Grid(longitude_nodes=6, latitude_nodes=4)
    ctx.oracle('NearestRegridder rejects a field that is not on the source grid',
               raises(lambda: hi.NearestRegridder(g1, g2).nearest_neighbor_2d(jnp.zeros((6, 4)))), None)


def indep_nodes(nlon, nlat, spacing, offset):
    """node coordinates from the grid DEFINITION (not from the Grid object)."""
    lon = np.linspace(0, 2 * np.pi, nlon, endpoint=False) + offset
    if spacing == 'gauss':
        lat = np.arcsin(np.polynomial.legendre.leggauss(nlat)[0])
    elif spacing == 'equiangular':
        h = np.pi / nlat; lat = np.linspace(-np.pi / 2 + h / 2, np.pi / 2 - h / 2, nlat)
    else:
        lat = np.linspace(-np.pi / 2, np.pi / 2, nlat)
    return lon, lat


def r_regrid2(ctx, a):
    """up-/down-sampling between grids of different spacing (gauss / equiangular / with poles), longitude offset,
    tall and wide grids, integer-typed fields, leading axes with different content; independent references."""
    jax, jnp, vi, sc, pe = J()
    from dinosaur import horizontal_interpolation as hi, spherical_harmonic as sh
    rng = np.random.Generator(np.random.PCG64(a['seed']))
    S, T = a['src'], a['tgt']
    mk = lambda d: sh.Grid(longitude_nodes=d[0], latitude_nodes=d[1], latitude_spacing=d[2], longitude_offset=d[3])
    gs, gt = mk(S), mk(T)
    (slon, slat), (tlon, tlat) = indep_nodes(*S), indep_nodes(*T)
    for g, lo, la in ((gs, slon, slat), (gt, tlon, tlat)):
        ctx.oracle_close('grid longitudes follow the grid definition', g.longitudes, lo, scale=8.0, tol_abs=1e-13)
        ctx.oracle_close('grid latitudes follow the grid definition', g.latitudes, la, scale=2.0, tol_abs=1e-13)
        ctx.table_obligation('grid latitudes strictly increasing', bool(np.all(np.diff(g.latitudes) > 0)), g.latitudes)
        ctx.table_obligation('grid longitudes strictly increasing', bool(np.all(np.diff(g.longitudes) > 0)), g.longitudes)
    lead = tuple(a['lead'])
    f = rng.integers(-64, 65, size=lead + (S[0], S[1]))
    f = f.astype(np.int64) if a['int'] else f / 8.0
    ctx.count('regrid2:' + S[2] + '->' + T[2]); ctx.count('regrid2:int64 field' if a['int'] else 'regrid2:float field')
    ctx.count('regrid2:target rows poleward of the source range', int(np.sum((tlat < slat[0]) | (tlat > slat[-1]))))
    ctx.count('regrid2:target columns beyond the source longitudes', int(np.sum((tlon < slon[0]) | (tlon > slon[-1]))))
    s = float(np.abs(f).max() + 1) * 4
    bl = hi.BilinearRegridder(gs, gt); out = np.asarray(bl(jnp.asarray(f)))
    ctx.exact('BilinearRegridder shape', list(out.shape), list(lead) + [T[0], T[1]])
    ctx.oracle('bilinear regridding of a finite field has no missing values (constant beyond the source range, poles included)',
               bool(np.all(np.isfinite(out))), {'nan_count': int(np.sum(~np.isfinite(out)))})
    ff = f.astype(np.float64)
    for ld in np.ndindex(*lead):
        lat_pass = np.stack([np.interp(tlat, slat, ff[ld][i]) for i in range(S[0])])                 # (slon, tlat)
        ref = np.stack([np.interp(tlon, slon, lat_pass[:, j]) for j in range(T[1])], axis=1)         # (tlon, tlat)
        ctx.oracle_close('bilinear regridding = latitude pass then longitude pass of the reference interpolant', out[ld], ref, scale=s)
        m = ctx.model.call(10, [S[0], S[1], T[0], T[1]], [gs.longitudes, gs.latitudes, ff[ld].ravel(), gt.longitudes, gt.latitudes])
        ctx.corr('BilinearRegridder', out[ld], m, scale=s)
        pole = (tlat < slat[0]) | (tlat > slat[-1])
        if pole.any():
            edge = np.where(tlat[pole] < slat[0], 0, S[1] - 1)
            want = np.stack([np.interp(tlon, slon, ff[ld][:, e]) for e in edge], axis=1)
            ctx.oracle_close('poleward of the source latitudes the nearest source row is used', out[ld][:, pole], want, scale=s)
    for nm, off, lo in (('source', S[3], slon), ('target', T[3], tlon)):
        ctx.count(f'regrid2:{nm} longitude offset ' + ('negative' if off < 0 else 'zero' if off == 0 else
                                                      'beyond one spacing' if off > 2 * np.pi / len(lo) else 'positive'))
        ctx.count(f'regrid2:{nm} nodes outside [0, 2pi)', int(np.sum((lo < 0) | (lo >= 2 * np.pi))))
    # identity between equal grids, for the source grid and for the target grid (offsets included)
    for nm, g, d_ in (('source', gs, S), ('target', gt, T)):
        h = rng.integers(-64, 65, size=(d_[0], d_[1])) / 8.0
        ctx.oracle_close(f'bilinear regridding is the identity between equal grids ({nm} grid of this case)',
                         np.asarray(hi.BilinearRegridder(g, g)(jnp.asarray(h))), h, scale=float(np.abs(h).max() + 1) * 4)
        same = hi.NearestRegridder(g, g)
        ctx.table_obligation('BallTree neighbour of a grid point within the same grid is itself',
                             bool(np.array_equal(np.asarray(same.indices), np.arange(d_[0] * d_[1]))), np.asarray(same.indices))
        ctx.oracle(f'nearest regridding is the identity between equal grids ({nm} grid of this case)',
                   bool(np.array_equal(np.asarray(same(jnp.asarray(h))), h)), None)
    again = np.asarray(bl(jnp.asarray(f)))
    ctx.oracle('bilinear regridder: repeated calls are bit-identical', bool(np.array_equal(out, again)), None)
    # nearest: independent brute-force great-circle neighbour
    nr = hi.NearestRegridder(gs, gt); idx = np.asarray(nr.indices).copy()
    LA, LO = np.meshgrid(slat, slon); la_s, lo_s = LA.ravel(), LO.ravel()      # lon-major like nodal_mesh.ravel()
    LA, LO = np.meshgrid(tlat, tlon); la_t, lo_t = LA.ravel(), LO.ravel()
    hav = lambda la1, lo1, la2, lo2: 2 * np.arcsin(np.sqrt(np.clip(np.sin((la2 - la1) / 2) ** 2 + np.cos(la1) * np.cos(la2) * np.sin((lo2 - lo1) / 2) ** 2, 0, 1)))
    D = hav(la_t[:, None], lo_t[:, None], la_s[None, :], lo_s[None, :])
    flat = np.sqrt((la_t[:, None] - la_s[None, :]) ** 2 + (lo_t[:, None] - lo_s[None, :]) ** 2)
    ctx.count('regrid2:targets whose great-circle neighbour differs from the flat (lat,lon) neighbour',
              int(np.sum(D[np.arange(D.shape[0]), flat.argmin(axis=1)] > D.min(axis=1) + 1e-9)))
    ok_range = idx.shape == (T[0] * T[1],) and bool(np.all((idx >= 0) & (idx < S[0] * S[1])))
    ctx.oracle('nearest indices are valid source indices', ok_range, {'shape': list(idx.shape)})
    if ok_range:
        chosen = D[np.arange(len(idx)), idx]
        ctx.oracle_close('nearest regridding picks a source point at minimal great-circle distance', chosen, D.min(axis=1), scale=1.0, tol_abs=1e-9)
        outn = np.asarray(nr(jnp.asarray(f)))
        ctx.exact('NearestRegridder shape', list(outn.shape), list(lead) + [T[0], T[1]])
        for ld in np.ndindex(*lead):
            ctx.exact('NearestRegridder (gather)', outn[ld].ravel().astype(np.float64).tolist(),
                      [float(v) for v in ctx.model.call(11, [S[0] * S[1], T[0] * T[1]] + [int(i) for i in idx], [ff[ld].ravel()])])
        ctx.oracle('nearest regridder: cached indices are not mutated and repeated calls are bit-identical',
                   bool(np.array_equal(np.asarray(nr.indices), idx) and np.array_equal(np.asarray(nr(jnp.asarray(f))), outn)), None)


def r_hybrid(ctx, a):
    jax, jnp, vi, sc, pe = J()
    aa = np.asarray(a['a'], dtype=np.float64); bb = np.asarray(a['bh'], dtype=np.float64)
    b = np.asarray(a['b'], dtype=np.float64); sp = np.asarray(a['sp'], dtype=np.float64)
    rng = np.random.Generator(np.random.PCG64(a['seed']))
    hc = vi.HybridCoordinates(a_boundaries=aa, b_boundaries=bb); sg = sc.SigmaCoordinates(b)
    sig = np.asarray(sg.centers); nH = hc.layers; K = len(sig); xy = sp.shape
    lead = (2,) if a['lead'] else ()
    fld = rng.integers(-64, 65, size=lead + (nH,) + xy).astype(np.float64) / 8
    out = np.asarray(vi.interp_hybrid_to_sigma(jnp.asarray(fld), hc, sg, jnp.asarray(sp)))
    also = np.asarray(vi.BilinearRegridder(hc, sg)(jnp.asarray(fld), jnp.asarray(sp)))
    ctx.exact('vertical BilinearRegridder == interp_hybrid_to_sigma', bool(np.array_equal(out, also, equal_nan=True)), True)
    ctx.exact('interp_hybrid_to_sigma shape', list(out.shape), list(lead) + [K] + list(xy))
    s = float(np.abs(fld).max() + 1) * 8
    for ij in np.ndindex(*xy):
        spv = sp[ij]
        cen_impl = np.asarray(hc.get_sigma_centers(spv))
        ctx.corr('HybridCoordinates.get_sigma_centers', cen_impl, ctx.model.call(12, [nH], [aa, bb, [spv]]), scale=float(np.abs(cen_impl).max()) + 1)
        bnd = aa / spv + bb                     # documented: level pressure = a + b*sp, i.e. sigma = a/sp + b
        cen = (bnd[1:] + bnd[:-1]) / 2
        ctx.oracle_close('hybrid sigma centers are the midpoints of a/sp + b', cen_impl, cen, scale=float(np.abs(cen).max()) + 1)
        for ld in np.ndindex(*lead):
            col = fld[ld + (slice(None),) + ij]; o = out[ld + (slice(None),) + ij]
            cmp_opt(ctx, 'interp_hybrid_to_sigma', o, ctx.model.call(8, [nH, K], [aa, bb, col, sig, [spv]]), s * 4)
            ins = (sig >= cen[0]) & (sig <= cen[-1])
            ctx.oracle_close('interp_hybrid_to_sigma: reference interpolant on a/sp+b centers inside the range',
                             o[ins], np.interp(sig[ins], cen, col), scale=s)
            # affine in the hybrid sigma coordinate -> exact on the window
        affc = 0.75 * cen + 2.0
        afld = np.zeros((nH,) + xy); afld[(slice(None),) + ij] = affc
        o = np.asarray(vi.interp_hybrid_to_sigma(jnp.asarray(afld), hc, sg, jnp.asarray(sp)))[(slice(None),) + ij]
        fin = ~np.isnan(o)
        ctx.oracle_close('interp_hybrid_to_sigma: exact for data affine in the coordinate', o[fin], (0.75 * sig + 2.0)[fin], scale=8.0)


def r_surface_pressure(ctx, a):
    jax, jnp, vi, sc, pe = J()
    levels = np.asarray(a['levels'], dtype=np.float64); geo = np.asarray(a['geo'], dtype=np.float64)
    oro = np.asarray(a['oro'], dtype=np.float64); g = a['g']; n = len(levels)
    out = np.asarray(vi.get_surface_pressure(vi.PressureCoordinates(levels), jnp.asarray(geo), jnp.asarray(oro), g))
    lead = geo.shape[:-3]; xy = geo.shape[-2:]
    ctx.exact('get_surface_pressure shape', list(out.shape), list(lead) + [1] + list(xy))
    for ld in np.ndindex(*lead):
        for ij in np.ndindex(*xy):
            col = geo[ld + (slice(None),) + ij]; o = float(out[ld + (0,) + ij]); h = float(oro[(0,) + ij])
            dmin = float(np.min(-np.diff(col)))
            reach = float(np.max(np.abs(h * g - col)))
            s = float(levels[-1]) * (1 + 2 * reach / dmin)
            ctx.corr('get_surface_pressure', [o], ctx.model.call(9, [n], [levels, col, [h, g]]), scale=s)
            # clause: the interpolated (linearly extrapolated) geopotential at the returned pressure equals g*orography
            j = int(np.clip(np.searchsorted(levels, o, side='right') - 1, 0, n - 2))
            val = chord(levels, col, j, o)
            ctx.oracle_close('surface pressure is the level where geopotential meets g*orography', [val], [h * g],
                             scale=float(np.abs(col).max() + abs(h * g)) * (1 + 2 * reach / dmin))
            ctx.count('surface:below-lowest-level' if o > levels[-1] else ('surface:above-top-level' if o < levels[0] else 'surface:inside'))


def r_regrid(ctx, a):
    jax, jnp, vi, sc, pe = J()
    try:
        from dinosaur import horizontal_interpolation as hi, spherical_harmonic as sh
    except Exception as e:      # sklearn missing
        ctx.mismatches.append(dict(ctx._where(), what='cannot import horizontal_interpolation', detail=repr(e))); return
    rng = np.random.Generator(np.random.PCG64(a['seed']))
    g1 = sh.Grid.with_wavenumbers(a['w1']); g2 = sh.Grid.with_wavenumbers(a['w2'])
    lead = tuple([2] * a['lead'])
    for g in (g1, g2):
        ctx.table_obligation('grid latitudes strictly increasing', bool(np.all(np.diff(g.latitudes) > 0)), g.latitudes)
        ctx.table_obligation('grid longitudes strictly increasing', bool(np.all(np.diff(g.longitudes) > 0)), g.longitudes)
    f = rng.integers(-64, 65, size=lead + g1.nodal_shape).astype(np.float64) / 8
    s = float(np.abs(f).max() + 1) * 4
    nlon, nlat = g1.nodal_shape; mlon, mlat = g2.nodal_shape
    # bilinear
    bl = hi.BilinearRegridder(g1, g2); out = np.asarray(bl(jnp.asarray(f)))
    ctx.exact('BilinearRegridder shape', list(out.shape), list(lead) + [mlon, mlat])
    for ld in np.ndindex(*lead):
        m = ctx.model.call(10, [nlon, nlat, mlon, mlat], [g1.longitudes, g1.latitudes, f[ld].ravel(), g2.longitudes, g2.latitudes])
        ctx.corr('BilinearRegridder', out[ld], m, scale=s)
    const = np.full(lead + g1.nodal_shape, 3.25)
    ctx.oracle_close('bilinear regridding reproduces constants', np.asarray(bl(jnp.asarray(const))), np.full(lead + g2.nodal_shape, 3.25), scale=4.0)
    same = hi.BilinearRegridder(g1, g1)
    ctx.oracle_close('bilinear regridding is the identity between equal grids', np.asarray(same(jnp.asarray(f))), f, scale=s)
    # nearest
    nr = hi.NearestRegridder(g1, g2); idx = np.asarray(nr.indices)
    ctx.exact('nearest indices in range', bool(np.all((idx >= 0) & (idx < nlon * nlat)) and idx.shape == (mlon * mlat,)), True)
    out = np.asarray(nr(jnp.asarray(f)))
    ctx.exact('NearestRegridder shape', list(out.shape), list(lead) + [mlon, mlat])
    for ld in np.ndindex(*lead):
        m = ctx.model.call(11, [nlon * nlat, mlon * mlat] + [int(i) for i in idx], [f[ld].ravel()])
        ctx.exact('NearestRegridder (gather)', out[ld].ravel().tolist(), [float(v) for v in m])
    ctx.oracle_close('nearest regridding reproduces constants', np.asarray(nr(jnp.asarray(const))), np.full(lead + g2.nodal_shape, 3.25), scale=4.0)
    nsame = hi.NearestRegridder(g1, g1)
    ctx.table_obligation('BallTree neighbour of a grid point within the same grid is itself',
                         bool(np.array_equal(np.asarray(nsame.indices), np.arange(nlon * nlat))), np.asarray(nsame.indices))
    ctx.oracle('nearest regridding is the identity between equal grids', bool(np.array_equal(np.asarray(nsame(jnp.asarray(f))), f)), None)


RUNNERS = {'interp1d': r_interp1d, 'safe_missing': r_safe_missing, 'vectorized': r_vectorized, 'vinterp_pe': r_vinterp_pe,
           'wrappers': r_wrappers, 'wrapper_kw': r_wrapper_kw, 'wrapper_forms': r_wrapper_forms, 'rejects': r_rejects, 'regrid2': r_regrid2, 'approx_sigma': r_approx_sigma, 'hybrid': r_hybrid, 'surface_pressure': r_surface_pressure, 'regrid': r_regrid}
